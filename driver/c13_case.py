#!/usr/bin/env python3
"""Replay of a C13 digest mismatch: one corpus case under two variants.
usage: c13_case.py <variantA> <backendA> <variantB> <backendB> <entry> <cfg> <cap> <hex>"""
import os, subprocess, sys
sys.path.insert(0, os.path.dirname(os.path.abspath(__file__)))
import vdriver as vd
va, ba, vb, bb = sys.argv[1:5]
args = ["replay", "c13"] + sys.argv[5:9]
outs = []
for v, b in ((va, ba), (vb, bb)):
    cmd, env = vd.worker_cmd(v, args)
    env["VERIF_BACKEND"] = b
    r = subprocess.run(cmd, env=env, stdout=subprocess.PIPE, stderr=subprocess.STDOUT, text=True)
    line = [l for l in r.stdout.splitlines() if l.startswith("DIGEST")]
    print("%s/%s: %s" % (v, b, line[0] if line else "no result (rc=%d) %s" % (r.returncode, r.stdout[-300:])))
    outs.append(line[0].split()[1] if line else None)
if outs[0] != outs[1]:
    print("REPRODUCED: results differ between the two variants")
    sys.exit(1)
print("not reproduced")
sys.exit(0)
