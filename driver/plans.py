"""Per-property check plans: which engines/variants run which worker tier,
floors, and the evidence texts."""
import os
from vdriver import *  # noqa
import vdriver as vd

GEN_RULE = ("Buffers come from generators G1 (templates), G2 (every listed byte value replaced/inserted/deleted at every "
            "position of each template), G3 (fields of every length with a special byte at every position), G4 (all words over "
            "a byte-class alphabet after resume contexts), G5 (grammar-random, incl. lenient constructs), G6 (mutations) and G8 "
            "(byte-string literals scraped from the repository's tests); each buffer is owned by one shard by content hash, so "
            "distinct_nontrivial is the exact number of DISTINCT NON-EMPTY buffers executed (64-bit content hash per kind), and "
            "evaluations is the number of monitored parser calls made on them (several entry points / configs / capacities / "
            "backends / placements per buffer). ")

RULES = {
    "C01": "Every call runs inside catch_unwind with a cursor-operation fuel budget, the buffer abutting a PROT_NONE page "
           "(end, start or mid-aligned placement) and the header array abutting another; a panic, fuel exhaustion, fatal signal "
           "or sanitizer/Miri report is a violation. ",
    "C02": "A case is one prefix chain: parse(B[..k]) for every k on fresh values (relation between consecutive results), plus "
           "one chunked-delivery history on a reused value. ",
    "C03": "Complete(n)/Partial compared with an independent linear scan for the first empty line. ",
    "C04": "Pointer range and order of every returned slice relative to the call's buffer. ",
    "C05": "Field-hygiene predicates on every returned field and on buf[..n]. ",
    "C06": "Status, n, method/path/version compared with the executable reference grammar (both multi-space settings). ",
    "C07": "Status, n, version/code/reason compared with the executable reference grammar (both multi-space settings). ",
    "C08": "Status, n and the ordered (name,value) ranges compared with the reference header-block parser under the default "
           "configuration, through parse_headers, requests and responses. ",
    "C09": "Status, n and size compared with the chunk-size reference automaton (u128 arithmetic) in release and debug builds. ",
    "C10": "Whenever the reference model rejects, the error kind must equal the model's label of the first offending byte; "
           "TooManyHeaders iff the model (with the call's capacity) completes a surplus header first. ",
    "C11": "For every observed Partial a completing suffix from a fixed finite set must exist (exemptions: target UTF-8, capacity). ",
    "C14": "Status, n and header list compared with the reference parser under every combination of the header options. ",
    "C15": "Each buffer is parsed under all 128 configurations: identical to default when default accepts; constant on classes "
           "of configs agreeing on the kind's own options. ",
    "C16": "Pairwise equality of the results of the entry points on identical arguments; parse_headers vs message parse. ",
    "C17": "Sentinel/poison monitor on the caller's array for capacities 0..k+2 and the capacity law against an ample-capacity run. ",
    "C19": "Global-allocator event count around each call must be 0. ",
}

ASSUME_COMMON = [
    "the harness (spec.rs reference grammar, arena.rs guard pages, obs.rs observer) is the trusted base; its canaries fired in this run",
    "hook module httparse::_verif only counts / re-exports and does not change parser behaviour",
    "held on the executions listed here; inputs outside the workloads are not covered",
]


def floors(ver, m, prop):
    """Too few events => inconclusive, never a pass."""
    c = m["counters"]
    h = m["hist"]
    if m["evaluations"] < 1000:
        ver.inconclusive.append("fewer than 1000 monitored calls")
    if prop == "C17":
        if not c.get("too_many_headers_seen"):
            ver.inconclusive.append("floor: no Err(TooManyHeaders) observed")
        if not c.get("cap0_with_headers_seen"):
            ver.inconclusive.append("floor: capacity 0 with headers present never observed")
    if prop == "C11" and not c.get("completed"):
        ver.inconclusive.append("floor: no Partial was completed")
    if prop == "C19":
        for k in ("Complete", "Partial", "Err(HeaderName)", "Err(HeaderValue)", "Err(NewLine)", "Err(Status)", "Err(Token)",
                  "Err(TooManyHeaders)", "Err(Version)", "Err(InvalidChunkSize)"):
            if h.get(k, 0) < 100:
                ver.inconclusive.append("floor: outcome %s observed only %d times" % (k, h.get(k, 0)))
    if prop in ("C06", "C07", "C08", "C09", "C10", "C14"):
        if not h.get("Complete") or not h.get("Partial"):
            ver.inconclusive.append("floor: Complete and Partial must both be observed")


def native_runs(prop, tier):
    """(label, variant, worker tier, shards)"""
    if tier == "quick":
        runs = [("native release, runtime backend forced per call", "rel", "quick", NCPU)]
        if prop in ("C01", "C09", "C03", "C05"):
            runs.append(("native debug-assertions + overflow checks", "rel-dbg", "small" if prop != "C09" else "quick", NCPU))
        if prop == "C01":
            runs.append(("native release code generation with -Coverflow-checks=on", "ovf", "small", NCPU))
        if prop in ("C06", "C07", "C08", "C10", "C14", "C02", "C11"):
            # a result that differs only in the debug profile (debug_assert!, overflow checks,
            # cfg!(debug_assertions) guards) violates these statements just as well
            runs.append(("native debug-assertions + overflow checks", "rel-dbg", "small", NCPU))
    else:
        runs = [("native release, runtime backend forced per call", "rel", "thorough", NCPU)]
        if prop in ("C01", "C09", "C03", "C04", "C05", "C17", "C02"):
            runs.append(("native debug-assertions + overflow checks", "rel-dbg", "quick" if prop != "C09" else "thorough", NCPU))
        if prop in ("C01",):
            runs.append(("native release code generation with -Coverflow-checks=on", "ovf", "quick", NCPU))
            for v in ("sse42ct", "avx2ct", "nosimd", "nostd"):
                runs.append(("native release, build variant " + v, v, "quick", NCPU))
    return runs


def generic(ver):
    prop, tier = ver.prop, ver.tier
    canaries(ver)
    main = None
    for label, vname, wt, n in native_runs(prop, tier):
        res = run_shards(vname, prop, wt, ver.seed, n, timeout=900 if tier == "quick" else 7200)
        m = ver.add_run(label, vname, wt, res)
        if main is None:
            main = m
    floors(ver, main, prop)
    import engines
    engines.extra(ver)
    return ver.finish(GEN_RULE + RULES.get(prop, ""), ASSUME_COMMON)


def run(prop, tier, seed):
    ver = Verdict(prop, tier, seed)
    import special_plans
    fn = special_plans.PLANS.get(prop, generic)
    return fn(ver)
