#!/usr/bin/env python3
"""Replay of a cfg-lattice build failure: lattice_case.py <std> <disable_simd> <disable_ct> <target-features|->"""
import os, subprocess, sys, shutil
sys.path.insert(0, os.path.dirname(os.path.abspath(__file__)))
import vdriver as vd
std, dis, disct, tf = sys.argv[1:5]
rel = len(sys.argv) > 5 and sys.argv[5] == "1"
env = dict(os.environ)
if dis == "1":
    env["CARGO_CFG_HTTPARSE_DISABLE_SIMD"] = "1"
if disct == "1":
    env["CARGO_CFG_HTTPARSE_DISABLE_SIMD_COMPILETIME"] = "1"
env["RUSTFLAGS"] = "" if tf == "-" else "-Ctarget-feature=" + tf
td = os.path.join(vd.TARGET_ROOT, "lattice-replay")
cmd = ["cargo", "check", "--offline", "--lib", "--manifest-path", os.path.join(vd.REPO, "Cargo.toml"), "--target-dir", td]
if std == "0":
    cmd.append("--no-default-features")
if rel:
    cmd.append("--release")
r = subprocess.run(cmd, env=env)
shutil.rmtree(td, ignore_errors=True)
sys.exit(1 if r.returncode != 0 else 0)
