#!/usr/bin/env python3
"""Regenerates /verif/MANIFEST.json (kept valid against /root/.vp/MANIFEST.schema.json)."""
import json, os, subprocess
V = os.path.dirname(os.path.dirname(os.path.abspath(__file__)))
props = [json.loads(l) for l in open(os.path.join(V, "properties.jsonl"))]
tech = {
 "C01": "runtime monitoring: guard-page arena + catch_unwind + cursor-fuel counter; debug-assertion and overflow-check builds; Miri (scalar, forced AVX2/SSE4.2), ASan, valgrind memcheck, libFuzzer+ASan workload",
 "C02": "runtime monitoring: prefix-chain relation monitor (parse of every prefix on fresh values) and chunked-delivery histories on a reused value",
 "C03": "runtime monitoring: independent linear framing scan vs observed Complete(n)/Partial",
 "C04": "runtime monitoring: pointer-range/order monitor on every returned slice (+ Miri provenance); rustc accept/reject verdict on a corpus of 104 client programs for the static clause",
 "C05": "runtime monitoring: field-hygiene predicates on every returned field and on buf[..n]",
 "C06": "runtime monitoring: differential monitor against an executable reference grammar (fresh and reused values, release and debug builds, forced backends)",
 "C07": "runtime monitoring: differential monitor against an executable reference grammar (fresh and reused values, release and debug builds, forced backends)",
 "C08": "runtime monitoring: differential monitor against an executable reference header parser through parse_headers, requests and responses",
 "C09": "runtime monitoring: differential monitor against a reference automaton with u128 arithmetic, in release and debug builds",
 "C10": "runtime monitoring: error-kind monitor against the reference model's element label of the first offending byte; TooManyHeaders law vs the model with the call's capacity",
 "C11": "runtime monitoring: completion-search monitor over every observed Partial (finite suffix set)",
 "C12": "runtime monitoring: direct scanner calls on guard-page buffers vs class predicates (bounded-exhaustive); NEON source over emulated intrinsics; Miri with forced AVX2/SSE4.2",
 "C13": "runtime monitoring: result digests of a shared corpus across 14 build/backend variants; 96 cfg-lattice builds; cold-start race in fresh processes (16 threads on all cores; 32/48 threads pinned to 1/2 CPUs with wake-up preemption) with detection histogram; Miri many-seeds (+TSan in thorough)",
 "C14": "runtime monitoring: differential monitor against the option-parameterised reference parser under every header-option combination",
 "C15": "runtime monitoring: metamorphic monitor over all 128 configurations per buffer",
 "C16": "runtime monitoring: pairwise agreement monitor over the entry points on fresh and reused values; parse_headers vs message parse (fixed start lines in front of header blocks, and every message's own header block)",
 "C17": "runtime monitoring: sentinel/poison monitor on the caller's array, capacity-law metamorphic check against an ample-capacity run (+ Miri with truly uninitialised arrays)",
 "C18": "runtime monitoring: reused-value histories (1..4 earlier calls) vs a fresh-value probe; documented-loop clause",
 "C19": "runtime monitoring: counting global allocator around every call, first call of fresh processes; core-only target build (dev+release)",
 "C20": "runtime monitoring: hook counters for cursor travel/reads/block peeks/operations on adversarial scaling families; callgrind instruction counts across sizes",
}
checks = []
for p in props:
    i = p["id"]
    checks.append({
        "property_id": i,
        "quick_cmd": "./check %s quick" % i,
        "thorough_cmd": "./check %s thorough" % i,
        "evidence_file": "evidence/%s.json" % i,
        "replay_cmd_template": "./check %s --replay {path}" % i,
        "engine": "hverif",
        "level_claimed": {"category": "exploration",
                          "text": "Held on the monitored executions listed in the evidence file (bounded-exhaustive sub-spaces plus random/mutational and coverage-guided workloads, several build variants and instrumentation engines). Not a proof: inputs, configurations and schedules outside the workloads are not covered. Validated against 156 independently seeded breaking changes from sub-agents (each caught by the quick check of the property it targets; DESIGN.md 13.4) and 302 automatic single-token mutants (13.6: 76 survive the pinned suite, 58 caught, 18 equivalent).",
                          "design_ref": "DESIGN.md section 7 (%s) and section 13" % i},
        "level_note": "Trusted base: the harness (reference grammar spec.rs, guard-page arena, observer, oracles; positive-control canaries must fire in every run, else the run is inconclusive) and the add-only hooks under cfg(httparse_verif). Exit 2 (INCONCLUSIVE) is never folded into pass or violation.",
        "technique": tech[i],
    })
log = subprocess.run(["git", "-C", "/repo", "log", "--format=%h %s"], capture_output=True, text=True).stdout.splitlines()
m = {"version": 1,
     "setup_cmd": "./setup.sh",
     "hooks": {"guard": "httparse_verif",
               "enable": "RUSTFLAGS=\"--cfg httparse_verif\" (set by ./check for every harness build; the harness depends on httparse by path)",
               "baseline_off_cmd": "cd /repo && cargo test --workspace --no-fail-fast --offline",
               "source_commits": [l.split()[0] for l in log if "verif hook" in l][::-1],
               "add_only": True},
     "engines": [
         {"name": "hverif", "path": "harness/", "serves_properties": [p["id"] for p in props],
          "kind_free_text": "Rust harness crate without external dependencies: reference spec, generators G1-G10, guard-page arena, observer, oracles, canaries; binaries worker / coldstart / scale. driver/*.py shards it over 16 cores, builds it per variant (release, debug, overflow-checks, compile-time sse4.2/avx2, SIMD disabled, no_std, ASan, TSan) from the working tree, runs it natively and under Miri / valgrind memcheck / callgrind, merges shard results, writes evidence and replay files."},
         {"name": "libfuzzer", "path": "fuzz/", "serves_properties": ["C01", "C02", "C03", "C04", "C05", "C06", "C07", "C08", "C09", "C10", "C11", "C14", "C15", "C16", "C17", "C19"],
          "kind_free_text": "cargo-fuzz target running the property's own per-call oracle on fuzzer-chosen (entry point, config, capacity, backend, buffer); thorough tier only; a workload generator with coverage feedback, not a different technique."},
         {"name": "rustc-verdict corpus", "path": "lifetimes/", "serves_properties": ["C04"],
          "kind_free_text": "94 minimal client programs that try to let a parsed slice outlive / alias-mutate its buffer or array (must be rejected with a borrow-check error) and 10 documented usage patterns (must compile), compiled against the rlib built from the working tree."}],
     "checks": checks,
     "notes": "exit 0 = held on everything explored (KNOWN-FINDING lines possible); exit 1 + `VIOLATION property=<id> replay=<path>` = violation with replay file; exit 2 + INCONCLUSIVE = tooling trouble / floor not met. known_findings.json lists one entry, status fixed (C09 zero-digit chunk size, repaired by /repo commit 3f533dc); fixed entries suppress nothing. VERIF_SEED seeds every random choice; VERIF_REPO / VERIF_OUT_ROOT redirect the repository under test and the evidence/replay output (used for mutant and seeded-change runs).",
     "not_applicable": []}
json.dump(m, open(os.path.join(V, "MANIFEST.json"), "w"), indent=1)
print("written", len(checks), "checks; hooks", m["hooks"]["source_commits"])
