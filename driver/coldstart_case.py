#!/usr/bin/env python3
"""Replay of a cold-start race witness (C13): rebuilds the harness from the working tree and
re-runs the recorded cold-start process (threads, seed, mode, cpu) in up to 300 fresh processes;
the race is a matter of scheduling, so one process is not enough. Exit 1 if any process shows a
thread whose first parse differs from the sequential parse of the same message."""
import json, os, shutil, subprocess, sys
sys.path.insert(0, os.path.dirname(os.path.abspath(__file__)))
import vdriver as vd


def main(a):
    threads, seed, mode, cpu = a[0], int(a[1]), a[2], a[3]
    binp = os.path.join(vd.build("rel"), "coldstart")
    ts = shutil.which("taskset")
    bad = 0
    n = 300
    for i in range(n):
        cmd = [binp, threads, str(seed)] + ([mode] if mode != "spin" else [])
        if cpu != "-" and ts:
            cmd = [ts, "-c", cpu] + cmd
        r = subprocess.run(cmd, stdout=subprocess.PIPE, stderr=subprocess.STDOUT, text=True, timeout=300)
        try:
            j = json.loads(r.stdout.strip().splitlines()[-1])
        except Exception:
            print("no result from", cmd, "rc", r.returncode)
            return 2
        if not j["all_equal"]:
            bad += 1
            print("process %d: thread %s got a result different from the sequential parse: %s" % (i, j["first_bad_thread"], json.dumps(j)))
            if bad >= 3:
                break
    print("%d of %d fresh processes showed a different first-call result" % (bad, i + 1))
    if bad:
        print("VIOLATION property=C13 replay=(this command)")
        return 1
    return 0


if __name__ == "__main__":
    sys.exit(main(sys.argv[1:]))
