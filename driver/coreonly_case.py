#!/usr/bin/env python3
"""Replay of the C19 core-only build."""
import os, sys
sys.path.insert(0, os.path.dirname(os.path.abspath(__file__)))
import vdriver as vd, engines
v = vd.Verdict("C19", "quick", 1)
engines.core_only_build(v)
for x in v.violations:
    print(x["detail"][-1500:])
sys.exit(1 if v.violations else 0)
