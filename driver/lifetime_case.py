#!/usr/bin/env python3
"""Replay one program of the C04 lifetime corpus: exit 1 if rustc's verdict is the wrong one."""
import glob, os, subprocess, sys
sys.path.insert(0, os.path.dirname(os.path.abspath(__file__)))
import vdriver as vd
name = sys.argv[1]
d = vd.build("rel")
deps = os.path.join(d, "deps")
rlib = sorted(glob.glob(os.path.join(deps, "libhttparse-*.rlib")), key=os.path.getmtime)[-1]
f = os.path.join(vd.VERIF, "lifetimes", name)
r = subprocess.run(["rustc", "--edition", "2021", "--crate-type", "lib", "--emit=metadata", "--cfg", "httparse_verif", "-L", "dependency=" + deps,
                    "--extern", "httparse=" + rlib, "-o", "/dev/null", f])
bad = (r.returncode == 0) if name.startswith("fail") else (r.returncode != 0)
print("rustc %s %s" % ("accepted" if r.returncode == 0 else "rejected", name))
sys.exit(1 if bad else 0)
