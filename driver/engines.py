"""Extra instrumentation engines per property (Miri, ASan, memcheck, ...)."""
from vdriver import *  # noqa


def extra(ver):
    pass
