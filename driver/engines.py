"""Extra instrumentation engines per property: Miri (Stacked / Tree Borrows,
forced SIMD), ASan, valgrind memcheck, TSan, rustc-verdict corpus (C04 static
clause), core-only build (C19)."""
import glob, json, os, shutil, subprocess, time
from concurrent.futures import ThreadPoolExecutor
from vdriver import *  # noqa
import vdriver as vd

MIRI_QUICK = {
    "C01": ["miri-swar", "miri-avx2", "miri-sse42"],
    "C04": ["miri-swar"],
    "C12": ["miri-avx2", "miri-sse42"],
    "C16": ["miri-swar"],
    "C17": ["miri-swar"],
    "C18": ["miri-swar"],
}
MIRI_THOROUGH = {
    "C01": ["miri-swar", "miri-avx2", "miri-sse42", "miri-tb", "miri-avx2-tb"],
    "C04": ["miri-swar", "miri-tb", "miri-avx2"],
    "C12": ["miri-avx2", "miri-sse42", "miri-swar"],
    "C16": ["miri-swar", "miri-tb"],
    "C17": ["miri-swar", "miri-tb"],
    "C18": ["miri-swar", "miri-tb"],
    "C02": ["miri-swar"],
    "C05": ["miri-avx2"],
}
NATIVE_TOOLS_THOROUGH = {
    "C01": [("asan", "small"), ("memcheck", "small")],
    "C04": [("asan", "small")],
    "C12": [("asan", "small"), ("memcheck", "tiny")],
    "C17": [("memcheck", "small"), ("asan", "small")],
    "C18": [("asan", "small")],
}


def miri_label(v):
    return {"miri-swar": "Miri (Stacked Borrows), scalar/SWAR build", "miri-avx2": "Miri, AVX2 backend forced at compile time",
            "miri-sse42": "Miri, SSE4.2 backend forced at compile time", "miri-tb": "Miri (Tree Borrows), scalar/SWAR build",
            "miri-avx2-tb": "Miri (Tree Borrows), AVX2 forced", "miri-rt": "Miri, runtime-dispatch module"}.get(v, v)


def extra(ver):
    prop, tier = ver.prop, ver.tier
    if os.environ.get("VERIF_NO_EXTRA"):
        ver.extra["extra_engines_skipped"] = "VERIF_NO_EXTRA set (native engines only)"
        return
    miri = (MIRI_QUICK if tier == "quick" else MIRI_THOROUGH).get(prop, [])
    seeds = 1 if tier == "quick" else 3
    for v in miri:
        for s in range(seeds):
            res = run_shards(v, prop, "tiny", ver.seed + s * 7919, NCPU, timeout=1500 if tier == "quick" else 6000)
            ver.add_run(miri_label(v) + (" (seed+%d)" % (s * 7919) if s else ""), v, "tiny", res)
    if tier == "quick" and prop == "C01":
        # in-page over-reads never fault on a guard page and do not change results: only byte-exact
        # tools see them. ASan on exact-size heap buffers, all three backends forced in turn.
        canary_tool(ver, "asan")
        res = run_shards("asan", prop, "small", ver.seed, NCPU, timeout=1500)
        ver.add_run("AddressSanitizer (exact-size heap buffers)", "asan", "small", res)
    if tier == "thorough":
        for (v, wt) in NATIVE_TOOLS_THOROUGH.get(prop, []):
            canary_tool(ver, v)
            res = run_shards(v, prop, wt, ver.seed, NCPU, timeout=7200)
            ver.add_run({"asan": "AddressSanitizer (exact-size heap buffers)", "memcheck": "valgrind memcheck (exact-size heap buffers, undefined-value tracking)"}[v], v, wt, res)
    if tier == "thorough" and prop in FUZZ_PROPS:
        fuzz_engine(ver, int(os.environ.get("VERIF_FUZZ_SECONDS", "90")))
    if prop == "C04":
        lifetimes_corpus(ver)
    if prop == "C19":
        core_only_build(ver)
        c19_coldstart(ver)
    if prop == "C13":
        c13_race_detectors(ver, full=(tier == "thorough"))


FUZZ_PROPS = ["C01", "C02", "C03", "C04", "C05", "C06", "C07", "C08", "C09", "C10", "C11", "C14", "C15", "C16", "C17", "C19"]


def fuzz_engine(ver, seconds):
    """E12: libFuzzer (+ASan) as a coverage-guided workload generator for this property's per-call oracle."""
    import re
    if vd.REPO != "/repo":
        ver.extra["libfuzzer"] = "skipped: the fuzz crate is tied to /repo"
        return
    fdir = os.path.join(vd.VERIF, "fuzz")
    td = os.path.join(vd.TARGET_ROOT, "fuzz")
    env = dict(os.environ, CARGO_NET_OFFLINE="true", RUSTFLAGS=vd.BASE_FLAGS, VERIF_FUZZ_PROP=ver.prop)
    b = subprocess.run(["cargo", "+nightly", "fuzz", "build", "--fuzz-dir", fdir, "--target-dir", td, "oracles"], env=env, cwd=fdir,
                       stdout=subprocess.PIPE, stderr=subprocess.STDOUT, text=True)
    if b.returncode != 0:
        ver.inconclusive.append("libFuzzer target build failed: " + b.stdout[-1200:])
        return
    work = os.path.join(vd.scratch_dir(), "fuzz-work", ver.prop)
    shutil.rmtree(work, ignore_errors=True)
    corpus, arts = os.path.join(work, "corpus"), os.path.join(work, "artifacts")
    os.makedirs(arts, exist_ok=True)
    subprocess.run([os.path.join(build("rel"), "worker"), "dump-corpus", corpus], stdout=subprocess.PIPE)
    cmd = ["cargo", "+nightly", "fuzz", "run", "--fuzz-dir", fdir, "--target-dir", td, "oracles", corpus, "--",
           "-max_total_time=%d" % seconds, "-fork=%d" % NCPU, "-ignore_crashes=1", "-timeout=10", "-seed=%d" % (ver.seed % (1 << 31) or 1),
           "-max_len=600", "-artifact_prefix=" + arts + "/"]
    r = subprocess.run(cmd, env=env, cwd=fdir, stdout=subprocess.PIPE, stderr=subprocess.STDOUT, text=True, errors="replace",
                       timeout=seconds * 3 + 600)
    execs = cov = ft = 0
    for m in re.finditer(r"#(\d+): cov: (\d+) ft: (\d+)", r.stdout):
        execs, cov, ft = max(execs, int(m.group(1))), max(cov, int(m.group(2))), max(ft, int(m.group(3)))
    crashes = sorted(f for f in os.listdir(arts) if f.startswith(("crash-", "timeout-", "oom-", "leak-")))
    ver.extra["libfuzzer"] = dict(seconds=seconds, forks=NCPU, executions=execs, coverage_edges=cov, features=ft, artifacts=len(crashes),
                                  sanitizer="address", corpus_files=len(os.listdir(corpus)))
    ver.evaluations += execs
    if execs == 0:
        ver.inconclusive.append("libFuzzer ran no inputs: " + r.stdout[-800:])
    os.makedirs(os.path.join(vd.OUT_ROOT, "replay"), exist_ok=True)
    w = os.path.join(build("rel"), "worker")
    for i, c in enumerate(crashes[:6]):
        keep = os.path.join(vd.OUT_ROOT, "replay", "fuzz-%s-%d.bin" % (ver.prop, i))
        shutil.copy(os.path.join(arts, c), keep)
        rr = subprocess.run([w, "replay", "fuzz", ver.prop, keep], stdout=subprocess.PIPE, stderr=subprocess.STDOUT, text=True, errors="replace")
        if rr.returncode == 1:
            line = next((l for l in rr.stdout.splitlines() if l.startswith("property=")), rr.stdout[-400:])
            ver.add_violation(dict(property=ver.prop, rule="found_by_libfuzzer", detail=line[:900], replay=["fuzz", ver.prop, keep], signature=None), "rel")
        elif rr.returncode < 0 or rr.returncode in (134, 139):
            ver.add_violation(dict(property=ver.prop, rule="memory_safety_or_abort", detail="libFuzzer artifact %s kills the native worker (rc %d)" % (c, rr.returncode),
                                   replay=["fuzz", ver.prop, keep], signature=None), "rel")
        elif c.startswith("crash-"):
            # reproduces only under ASan / in the fuzz binary: still a report from the sanitizer
            ver.inconclusive.append("libFuzzer crash artifact %s does not reproduce natively (kept at %s); fuzzer output tail: %s" % (c, keep, r.stdout[-600:]))
    shutil.rmtree(work, ignore_errors=True)


def canary_tool(ver, vname):
    """The tool must report a deliberate heap out-of-bounds read."""
    cmd, env = worker_cmd(vname, ["canary", "heap_oob"])
    r = subprocess.run(cmd, env=env, stdout=subprocess.PIPE, stderr=subprocess.STDOUT, text=True, errors="replace")
    # ASan/Miri abort at the bad read; memcheck reports it, lets the program finish and exits with --error-exitcode
    fired = (r.returncode != 0 and "canary survived" not in r.stdout) or r.returncode == 97
    ver.extra.setdefault("canaries", {})["tool_" + vname] = "reported" if fired else "SILENT rc=%d" % r.returncode
    if not fired:
        ver.inconclusive.append("%s did not report the deliberate out-of-bounds read" % vname)


# ---------------------------------------------------------------- C04 static clause

BORROW_CODES = {"E0499", "E0502", "E0503", "E0505", "E0506", "E0515", "E0597", "E0713", "E0716", "E0521", "E0382", "E0507", "E0308", "E0623", "E0495", "E0106", "E0621", "E0700", "E0310", "E0311", "E0596"}
# E0308/E0621/E0623/E0495/E0700/E0310/E0311: lifetime mismatch diagnostics ("lifetime may not live long enough" has no code)


def lifetimes_corpus(ver):
    d = build("rel")
    deps = os.path.join(d, "deps")
    rlibs = sorted(glob.glob(os.path.join(deps, "libhttparse-*.rlib")), key=os.path.getmtime)
    if not rlibs:
        ver.inconclusive.append("C04 static clause: httparse rlib not found")
        return
    rlib = rlibs[-1]
    root = os.path.join(vd.VERIF, "lifetimes")
    out = os.path.join(vd.scratch_dir(), "lt")
    os.makedirs(out, exist_ok=True)
    files = sorted(glob.glob(os.path.join(root, "fail", "*.rs"))) + sorted(glob.glob(os.path.join(root, "pass", "*.rs")))

    def one(f):
        cmd = ["rustc", "--edition", "2021", "--crate-type", "lib", "--error-format=json", "--emit=metadata", "--cfg", "httparse_verif",
               "-L", "dependency=" + deps, "--extern", "httparse=" + rlib, "-o", os.path.join(out, os.path.basename(f) + ".rmeta"), f]
        r = subprocess.run(cmd, stdout=subprocess.PIPE, stderr=subprocess.PIPE, text=True)
        codes, msgs = [], []
        for line in r.stderr.splitlines():
            try:
                j = json.loads(line)
            except Exception:
                continue
            if j.get("level") == "error":
                c = (j.get("code") or {}).get("code")
                codes.append(c)
                msgs.append(j.get("message", "")[:120])
        return f, r.returncode, codes, msgs

    with ThreadPoolExecutor(max_workers=NCPU) as ex:
        res = list(ex.map(one, files))
    shutil.rmtree(out, ignore_errors=True)
    nfail = npass = 0
    samples = []
    for f, rc, codes, msgs in res:
        name = os.path.relpath(f, root)
        expect_fail = name.startswith("fail")
        borrow = [c for c in codes if c in BORROW_CODES] + [m for m in msgs if "lifetime may not live long enough" in m or "borrowed data escapes" in m]
        if expect_fail:
            nfail += 1
            if rc == 0:
                ver.violations.append(dict(property="C04", rule="escaping_program_accepted_by_rustc", variant="rel", signature=None,
                                           detail="client program %s, which lets a parsed field outlive / alias-mutate its buffer or array, compiled without error" % name,
                                           replay=["rustc", name], replay_cmd=["python3", "driver/lifetime_case.py", name]))
            elif not borrow:
                ver.inconclusive.append("lifetimes/%s rejected for a non-borrow reason: %s %s" % (name, codes, msgs[:2]))
            elif len(samples) < 3:
                samples.append(dict(program=name, rustc="rejected", codes=[c for c in codes if c][:3]))
        else:
            npass += 1
            if rc != 0:
                # a usage pattern that must keep compiling is a property violation only if it is a borrow error
                if borrow:
                    ver.violations.append(dict(property="C04", rule="legitimate_program_rejected_by_rustc", variant="rel", signature=None,
                                               detail="client program %s (documented usage pattern) no longer compiles: %s" % (name, msgs[:2]),
                                               replay=["rustc", name], replay_cmd=["python3", "driver/lifetime_case.py", name]))
                else:
                    ver.inconclusive.append("lifetimes/%s does not compile: %s %s" % (name, codes, msgs[:2]))
    ver.extra["static_clause_rustc_corpus"] = dict(escaping_programs_must_be_rejected=nfail, usage_patterns_must_compile=npass, examples=samples)
    ver.evaluations += len(res)
    if nfail < 20 or npass < 5:
        ver.inconclusive.append("lifetime corpus too small (%d fail / %d pass programs)" % (nfail, npass))


# ---------------------------------------------------------------- C19 build clause

NOSTD_CLIENT = '''#![no_std]
use core::mem::MaybeUninit;
use httparse::{Header, ParserConfig, Request, Response, EMPTY_HEADER};

pub fn all(buf: &[u8]) -> usize {
    let mut n = 0usize;
    let mut h = [EMPTY_HEADER; 4];
    let mut r = Request::new(&mut h);
    if let Ok(s) = r.parse(buf) { n += s.is_complete() as usize; }
    let mut h = [EMPTY_HEADER; 4];
    let mut r = Request::new(&mut h);
    let c = ParserConfig::default();
    if let Ok(s) = c.parse_request(&mut r, buf) { n += s.is_complete() as usize; }
    let mut u: [MaybeUninit<Header<'_>>; 4] = [MaybeUninit::uninit(); 4];
    let mut r = Request::new(&mut []);
    if let Ok(s) = r.parse_with_uninit_headers(buf, &mut u) { n += s.is_complete() as usize; }
    let mut u: [MaybeUninit<Header<'_>>; 4] = [MaybeUninit::uninit(); 4];
    let mut r = Request::new(&mut []);
    if let Ok(s) = c.parse_request_with_uninit_headers(&mut r, buf, &mut u) { n += s.is_complete() as usize; }
    let mut h = [EMPTY_HEADER; 4];
    let mut r = Response::new(&mut h);
    if let Ok(s) = r.parse(buf) { n += s.is_complete() as usize; }
    let mut h = [EMPTY_HEADER; 4];
    let mut r = Response::new(&mut h);
    if let Ok(s) = c.parse_response(&mut r, buf) { n += s.is_complete() as usize; }
    let mut u: [MaybeUninit<Header<'_>>; 4] = [MaybeUninit::uninit(); 4];
    let mut r = Response::new(&mut []);
    if let Ok(s) = c.parse_response_with_uninit_headers(&mut r, buf, &mut u) { n += s.is_complete() as usize; }
    let mut h = [EMPTY_HEADER; 4];
    if let Ok(s) = httparse::parse_headers(buf, &mut h) { n += s.is_complete() as usize; }
    if let Ok(s) = httparse::parse_chunk_size(buf) { n += s.is_complete() as usize; }
    n
}
'''


def core_only_build(ver):
    """httparse with the std feature off, built for a target whose sysroot has core only."""
    src = os.path.join(vd.scratch_dir(), "coreonly-src")
    td = os.path.join(vd.scratch_dir(), "coreonly")
    shutil.rmtree(src, ignore_errors=True)
    os.makedirs(os.path.join(src, "src"), exist_ok=True)
    open(os.path.join(src, "Cargo.toml"), "w").write(
        '[package]\nname = "nostd_client"\nversion = "0.1.0"\nedition = "2021"\n[dependencies]\nhttparse = { path = "%s", default-features = false }\n[workspace]\n' % vd.REPO)
    open(os.path.join(src, "src", "lib.rs"), "w").write(NOSTD_CLIENT)
    results = {}
    for hooks, release in ((False, False), (False, True), (True, False)):
        env = dict(os.environ)
        env["CARGO_NET_OFFLINE"] = "true"
        env["RUSTFLAGS"] = "--cfg httparse_verif" if hooks else ""
        cmd = ["cargo", "+nightly", "build", "--offline", "-Zbuild-std=core", "--target", "x86_64-unknown-none", "--manifest-path",
               os.path.join(src, "Cargo.toml"), "--target-dir", td + ("-h" if hooks else "")]
        if release:
            cmd.append("--release")
        t0 = time.time()
        r = subprocess.run(cmd, env=env, stdout=subprocess.PIPE, stderr=subprocess.STDOUT, text=True)
        results[("hooks_on" if hooks else "hooks_off") + ("_release" if release else "_dev")] = dict(rc=r.returncode, seconds=round(time.time() - t0, 1))
        if r.returncode != 0:
            tail = r.stdout[-1500:]
            if "E0463" in r.stdout or "E0433" in r.stdout or "E0432" in r.stdout or "can't find crate" in r.stdout:
                if hooks and results.get("hooks_off_dev", {}).get("rc") == 0:
                    ver.inconclusive.append("core-only build fails only with hooks on:\n" + tail)
                else:
                    ver.violations.append(dict(property="C19", rule="no_std_build_needs_std_or_alloc", variant="coreonly", signature=None,
                                               detail="building httparse (default-features = false) against a core-only sysroot fails: " + tail[-700:],
                                               replay=["coreonly"], replay_cmd=["python3", "driver/coreonly_case.py"]))
            else:
                ver.inconclusive.append("core-only build failed for another reason:\n" + tail)
    shutil.rmtree(td, ignore_errors=True)
    shutil.rmtree(td + "-h", ignore_errors=True)
    ver.extra["core_only_build"] = dict(target="x86_64-unknown-none", build_std="core", results=results,
                                        client="no_std crate calling all 9 entry points, httparse default-features=false")
    ver.evaluations += 3


def c19_coldstart(ver):
    """Allocator events in the very first call of a process (runtime CPU detection happens inside it)."""
    d = build("rel")
    binp = os.path.join(d, "coldstart")
    worst = 0
    n = 40 if ver.tier == "quick" else 400
    for i in range(n):
        r = subprocess.run([binp, "1" if i % 2 else "4", str(ver.seed + i)], stdout=subprocess.PIPE, stderr=subprocess.STDOUT, text=True)
        try:
            j = json.loads(r.stdout.strip().splitlines()[-1])
            worst = max(worst, j["first_call_allocs"])
        except Exception:
            ver.inconclusive.append("coldstart gave no result")
            return
    ver.extra["cold_start_first_call"] = dict(processes=n, max_allocator_events_by_calling_thread=worst)
    ver.evaluations += n
    if worst != 0:
        ver.violations.append(dict(property="C19", rule="heap_allocation_during_first_call", variant="rel", signature=None,
                                   detail="%d allocator events by the calling thread during the first parse of a fresh process" % worst,
                                   replay=["coldstart"], replay_cmd=[binp, "1", str(ver.seed)]))


# ---------------------------------------------------------------- C13 race detectors (thorough)

def c13_race_detectors(ver, full=True):
    # TSan (thorough only: needs a -Zbuild-std build)
    try:
        if not full:
            raise StopIteration
        d = build("tsan")
        binp = os.path.join(d, "coldstart")
        env = dict(os.environ, TSAN_OPTIONS="halt_on_error=1:exitcode=66")
        reports = 0
        runs = 200
        for i in range(runs):
            r = subprocess.run([binp, "16", str(ver.seed * 31 + i)], env=env, stdout=subprocess.PIPE, stderr=subprocess.STDOUT, text=True)
            if r.returncode == 66 or "WARNING: ThreadSanitizer" in r.stdout:
                reports += 1
                if reports == 1:
                    ver.violations.append(dict(property="C13", rule="data_race_reported_by_tsan", variant="tsan", signature=None,
                                               detail="ThreadSanitizer report in the 16-thread cold start: " + r.stdout[-1200:],
                                               replay=["tsan-coldstart"], replay_cmd=[binp, "16", str(ver.seed * 31 + i)]))
        ver.extra["tsan_cold_start"] = dict(processes=runs, reports=reports)
        ver.evaluations += runs
    except StopIteration:
        pass
    except Inconclusive as e:
        ver.inconclusive.append("TSan build failed: " + str(e)[-800:])
    # Miri data-race detector over many schedules
    v = variant("miri-rt")
    env = dict(os.environ, RUSTFLAGS=v["rustflags"], MIRIFLAGS=v["miriflags"] + " -Zmiri-many-seeds=0..%d" % (32 if full else 8), CARGO_NET_OFFLINE="true", VERIF_REPO=vd.REPO)
    cmd = ["cargo", "+nightly", "miri", "run", "--quiet", "--manifest-path", os.path.join(manifest_dir(), "Cargo.toml"), "--target-dir", target_dir(v),
           "--bin", "coldstart", "--", "4", str(ver.seed)]
    r = subprocess.run(cmd, env=env, stdout=subprocess.PIPE, stderr=subprocess.STDOUT, text=True, errors="replace")
    ub = "Undefined Behavior" in r.stdout or "Data race" in r.stdout
    ver.extra["miri_cold_start"] = dict(schedules=32 if full else 8, threads=4, reported=ub, rc=r.returncode)
    if ub:
        ver.violations.append(dict(property="C13", rule="data_race_reported_by_miri", variant="miri-rt", signature=None,
                                   detail=r.stdout[-1500:], replay=["miri-coldstart"], replay_cmd=cmd))
    elif r.returncode != 0:
        ver.inconclusive.append("miri cold start run failed: " + r.stdout[-800:])
    ver.evaluations += 32 if full else 8
