"""Plans for properties with special structure."""
from vdriver import *  # noqa

PLANS = {}
