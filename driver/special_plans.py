"""Plans for properties with special structure: C12, C13, C18, C20."""
import json, os, re, shutil, subprocess, time
from concurrent.futures import ThreadPoolExecutor
from vdriver import *  # noqa
import vdriver as vd
import plans

# ---------------------------------------------------------------- C12


def c12(ver):
    canaries(ver)
    wt = "quick" if ver.tier == "quick" else "thorough"
    res = run_shards("rel", "C12", wt, ver.seed, NCPU, timeout=7200)
    m = ver.add_run("native release: every scanner called directly through the hook wrappers, buffers abutting guard pages", "rel", wt, res)
    c = m["counters"]
    want = ["SwarUri", "SwarValue", "SwarName", "Sse42Uri", "Sse42Value", "Avx2Uri", "Avx2Value", "DispUri(1)", "DispUri(2)",
            "DispUri(3)", "DispValue(1)", "DispValue(2)", "DispValue(3)", "DispName", "NeonUri", "NeonValue", "NeonName"]
    for s in want:
        if c.get("calls:" + s, 0) < 1000:
            ver.inconclusive.append("floor: scanner %s exercised only %d times (%s)" % (s, c.get("calls:" + s, 0), c.get("unavailable:" + s)))
    missing = {k: v for k, v in c.items() if k.startswith("backend_bit_missing")}
    if missing:
        ver.inconclusive.append("a wrapper did not enter the scanner it names: %s" % missing)
    if c.get("predicate_table_checks", 0) != 1024:
        ver.inconclusive.append("class predicate table not fully checked")
    # second build: compile-time AVX2 dispatch path (dispatch wrappers differ)
    # (the dispatch wrappers are different code in each: compile-time AVX2 / SSE4.2, SIMD disabled, no_std)
    for v in ["avx2ct", "sse42ct", "nosimd", "nostd"]:
        res = run_shards(v, "C12", "small" if ver.tier == "quick" else "quick", ver.seed, NCPU, timeout=3600)
        ver.add_run("native release, compile-time dispatch variant " + v, v, "small", res)
    import engines
    engines.extra(ver)
    rule = ("A case is one direct scanner call (backend x class) on a buffer placed against a guard page; the oracle is "
            "stop == index of the first byte outside the class (harness's own range predicates) or len. Enumerated: every length "
            "0..=100, every single offending position x every byte value, pairs of offending positions, 34 placements/alignments "
            "for clean buffers, long buffers with offending bytes near block boundaries, and all 8-byte words over a boundary "
            "alphabet for the word-at-a-time and (doubled to 16 bytes) NEON block functions. distinct_nontrivial = distinct "
            "(scanner, buffer[, placement]) cases by 64-bit hash, cases partitioned over shards by enumeration index. The four "
            "class predicates are compared with the statement's classes for all 256 bytes. NEON runs as the repository's source "
            "over bit-exact emulated intrinsics (neon_emu.rs).")
    return ver.finish(rule, plans.ASSUME_COMMON + ["neon_emu.rs models the aarch64 intrinsics faithfully; real NEON hardware is not reachable here"],
                      extra_cov=dict(exhaustive_subspaces=["lengths 0..=100 x single offending position x all 256 values, per scanner",
                                                           "all 8-byte words over the listed boundary alphabet, SWAR and NEON block functions",
                                                           "256-entry class predicate tables"]))


# ---------------------------------------------------------------- C13

def digests_of(results):
    out = {}
    for r in results:
        d = r.get("data")
        if not d:
            continue
        for n in d["notes"]:
            if n.startswith("DIGESTS:"):
                out[r["shard"]] = n[8:].split(",")
    return out


def c13_runs(tier):
    runs = []
    profs = ["", "-dbg"]
    for p in profs:
        for bk in ("avx2", "sse42", "scalar"):
            runs.append(("rel" + p, bk))
        for v in ("sse42ct", "avx2ct", "nosimd", "nostd"):
            runs.append((v + p, "asis"))
    return runs


def c13_witness(ver, ref, other, shard, block, wt, nshards):
    """Re-run one shard of two variants dumping one block; find the first differing case."""
    dumps = []
    for (vname, bk) in (ref, other):
        env = {"VERIF_BACKEND": bk, "VERIF_C13_DUMP": str(block)}
        r = run_one(vname, "C13", wt, ver.seed, shard, nshards, vd.scratch_dir(), env, 3600)
        d = None
        if r.get("data"):
            for n in r["data"]["notes"]:
                if n.startswith("DUMP:"):
                    d = json.loads(n[5:])
        dumps.append(d)
    if not dumps[0] or not dumps[1]:
        ver.inconclusive.append("C13 digest mismatch in shard %d block %d but the dump re-run failed" % (shard, block))
        return
    for a, b in zip(dumps[0], dumps[1]):
        if a["digest"] != b["digest"] or a["hex"] != b["hex"]:
            detail = ("variant %s/%s: %s | variant %s/%s: %s | entry=%s cfg=%s cap=%s input_hex=%s" %
                      (ref[0], ref[1], a["result"], other[0], other[1], b["result"], a["entry"], a["cfg"], a["cap"], a["hex"][:600]))
            v = dict(property="C13", rule="result_differs_between_variants", detail=detail, signature=None,
                     replay=["c13", a["entry"], str(a["cfg"]), str(a["cap"]), a["hex"]],
                     replay_cmd=["python3", "driver/c13_case.py", ref[0], ref[1], other[0], other[1], a["entry"], str(a["cfg"]), str(a["cap"]), a["hex"]])
            ver.violations.append(dict(v, variant=other[0]))
            return
    ver.inconclusive.append("C13 digest mismatch in shard %d block %d but no differing case found in the dump" % (shard, block))


def c13_lattice(ver):
    """cargo check of httparse alone for all 32 switch combinations, hooks on and off."""
    combos = []
    for std in (True, False):
        for dis in (False, True):
            for disct in (False, True):
                for tf in ("", "+sse4.2", "+avx2", "+sse4.2,+avx2"):
                    for hooks in (True, False):
                        for rel in (False, True):
                            if hooks and rel:
                                continue
                            combos.append((std, dis, disct, tf, hooks, rel))
    root = os.path.join(vd.scratch_dir(), "lattice")
    shutil.rmtree(root, ignore_errors=True)
    os.makedirs(root, exist_ok=True)

    def one(i_c):
        i, (std, dis, disct, tf, hooks, rel) = i_c
        env = dict(os.environ)
        env["CARGO_NET_OFFLINE"] = "true"
        if dis:
            env["CARGO_CFG_HTTPARSE_DISABLE_SIMD"] = "1"
        if disct:
            env["CARGO_CFG_HTTPARSE_DISABLE_SIMD_COMPILETIME"] = "1"
        flags = []
        if hooks:
            flags.append("--cfg httparse_verif")
        if tf:
            flags.append("-Ctarget-feature=" + tf)
        env["RUSTFLAGS"] = " ".join(flags)
        cmd = ["cargo", "check", "--offline", "--lib", "--manifest-path", os.path.join(vd.REPO, "Cargo.toml"), "--target-dir",
               os.path.join(root, "c%d" % i)]
        if not std:
            cmd.append("--no-default-features")
        if rel:
            cmd.append("--release")
        r = subprocess.run(cmd, env=env, stdout=subprocess.PIPE, stderr=subprocess.STDOUT, text=True)
        return (i, (std, dis, disct, tf, hooks, rel), r.returncode, r.stdout[-1500:])

    with ThreadPoolExecutor(max_workers=NCPU) as ex:
        res = list(ex.map(one, enumerate(combos)))
    shutil.rmtree(root, ignore_errors=True)
    bad = [r for r in res if r[2] != 0]
    ok = len(res) - len(bad)
    ver.extra["cfg_lattice"] = dict(builds=len(res), succeeded=ok,
                                    dimensions="std x DISABLE_SIMD x DISABLE_SIMD_COMPILETIME x {none,+sse4.2,+avx2,+sse4.2+avx2} x {hooks off dev, hooks off release, hooks on dev}")
    for (i, c, rc, out) in bad[:3]:
        name = "std=%s DISABLE_SIMD=%s DISABLE_SIMD_COMPILETIME=%s target-feature=%s hooks=%s release=%s" % c
        # a hooks-on-only failure is the instrumentation's problem, not the repository's
        if c[4] and not any(b[1][:4] == c[:4] and not b[1][4] and not b[1][5] for b in bad):
            ver.inconclusive.append("lattice build fails only with hooks on: %s\n%s" % (name, out))
            continue
        ver.violations.append(dict(property="C13", rule="switch_combination_does_not_build", variant="lattice", signature=None,
                                   detail="%s: cargo check failed: %s" % (name, out[-900:]),
                                   replay=["lattice", name],
                                   replay_cmd=["python3", "driver/lattice_case.py", str(int(c[0])), str(int(c[1])), str(int(c[2])), c[3] or "-", str(int(c[5]))]))
    ver.evaluations += len(res)


def c13_coldstart(ver):
    d = build("rel")
    n = 450 if ver.tier == "quick" else 6000
    binp = os.path.join(d, "coldstart")

    taskset = shutil.which("taskset")

    def one(i):
        # i%3==0: 16 threads released at the same instant on all cores (spin barrier);
        # i%3==1: 32 threads pinned to ONE cpu, each sleeping a different 0..400 us before its first call, so
        #         that timer wake-ups preempt a thread in the middle of its first call / of the detection and
        #         the woken thread makes its own first call meanwhile (more runnable threads than CPUs);
        # i%3==2: the same with 48 threads on TWO cpus (a preempted thread and a truly parallel one)
        sd = ver.seed * 100003 + i
        mode, cpu, th = "spin", "-", "16"
        if taskset and i % 3 == 1:
            mode, cpu, th = "sleep", str(i % NCPU), "32"
        elif taskset and i % 3 == 2:
            mode, cpu, th = "sleep", "%d,%d" % (i % NCPU, (i + 5) % NCPU), "48"
        cmd = [binp, th, str(sd)] + ([mode] if mode != "spin" else [])
        if cpu != "-":
            cmd = [taskset, "-c", cpu] + cmd
        r = subprocess.run(cmd, stdout=subprocess.PIPE, stderr=subprocess.STDOUT, text=True, timeout=300)
        try:
            j = json.loads(r.stdout.strip().splitlines()[-1])
            j["case"] = [th, str(sd), mode, cpu]
            return i, r.returncode, j
        except Exception:
            return i, r.returncode, None

    with ThreadPoolExecutor(max_workers=8) as ex:
        res = list(ex.map(one, range(n)))
    hist = {}
    bad = 0
    allocs = 0
    for i, rc, j in res:
        if j is None:
            ver.inconclusive.append("coldstart process %d gave no result (rc=%s)" % (i, rc))
            continue
        hist[j["detects"]] = hist.get(j["detects"], 0) + 1
        allocs = max(allocs, j["first_call_allocs"])
        if not j["all_equal"]:
            bad += 1
            if bad <= 2:
                ver.violations.append(dict(property="C13", rule="cold_start_race_changes_result", variant="rel", signature=None,
                                           detail="%s threads (mode %s, cpu %s) making their first parse concurrently: thread %s got a result different from the sequential parse (seed %s)" % (j["case"][0], j["case"][2], j["case"][3], j["first_bad_thread"], j["case"][1]),
                                           replay=["coldstart"] + j["case"],
                                           replay_cmd=["python3", os.path.join(VERIF, "driver", "coldstart_case.py")] + j["case"]))
    ver.extra["cold_start"] = dict(processes=n, modes="a third each: 16 threads on all cores released by a spin barrier; 32 threads pinned to one CPU with 0..400 us sleeps before the first call (timer wake-ups preempt a thread inside its first call); 48 threads pinned to two CPUs, same sleeps", detections_per_process_histogram={str(k): v for k, v in sorted(hist.items())},
                                   max_allocator_events_in_first_call=allocs)
    raced = sum(v for k, v in hist.items() if k > 1)
    ver.extra["cold_start"]["processes_in_which_several_threads_raced_through_detection"] = raced
    if raced == 0:
        # nothing to conclude about the race on a machine that never provokes it (e.g. a single core)
        ver.inconclusive.append("cold-start race was never provoked in %d processes" % n)
    ver.evaluations += n * 24


def c13(ver):
    canaries(ver)
    wt = "quick" if ver.tier == "quick" else "thorough"
    runs = c13_runs(ver.tier)
    allres = {}
    for (vname, bk) in runs:
        res = run_shards(vname, "C13", wt, ver.seed, NCPU, extra_env={"VERIF_BACKEND": bk}, timeout=7200)
        m = ver.add_run("digest corpus under %s backend=%s" % (vname, bk), vname, wt, res)
        if bk != "asis" and any("cannot be forced" in n for n in m["notes"]):
            ver.inconclusive.append("backend %s could not be forced in %s" % (bk, vname))
        allres[(vname, bk)] = digests_of(res)
    ref = runs[0]
    nblocks = sum(len(v) for v in allres[ref].values())
    mism = 0
    for other in runs[1:]:
        for shard, dg in allres[ref].items():
            od = allres[other].get(shard)
            if od is None:
                continue
            if od != dg:
                mism += 1
                if mism <= 3:
                    blk = next((i for i, (a, b) in enumerate(zip(dg, od)) if a != b), min(len(dg), len(od)))
                    c13_witness(ver, ref, other, shard, blk, wt, NCPU)
    ver.extra["digest_runs"] = ["%s/%s" % r for r in runs]
    ver.extra["digest_blocks_compared_per_run"] = nblocks
    ver.extra["digest_vectors_equal"] = mism == 0
    c13_lattice(ver)
    c13_coldstart(ver)
    import engines
    engines.extra(ver)
    rule = ("Clause 1: a deterministic corpus (G1, G2/G3/G4 samples, G5, G6, G8; each case with its own entry point, config and "
            "capacity, each run at 4 placements/alignments whose results must agree) is run by 14 variants "
            "{runtime dispatch forced to AVX2, SSE4.2, scalar; compile-time sse4.2; compile-time avx2; SIMD disabled; no_std} x "
            "{release, debug-assertions}; one 64-bit digest per 256 cases; all digest vectors must be equal (a mismatch is "
            "resolved to the first differing case). distinct_nontrivial = distinct non-empty corpus buffers. Clause 2: cargo "
            "check of all 32 switch combinations, hooks on and off. Clause 3: fresh processes in which 16 threads make their "
            "first parse at the same instant (spin barrier); every result must equal the sequential result; the histogram of "
            "runtime detections per process shows how often the race was provoked.")
    return ver.finish(rule, plans.ASSUME_COMMON + ["CPUs lacking AVX2/SSE4.2, aarch64 and 32-bit x86 are not reachable in this sandbox"])


# ---------------------------------------------------------------- C18

def c18(ver):
    canaries(ver)
    wt = "quick" if ver.tier == "quick" else "thorough"
    res = run_shards("rel", "C18", wt, ver.seed, NCPU, timeout=7200)
    m = ver.add_run("native release, histories on one reused value vs fresh value", "rel", wt, res)
    c = m["counters"]
    for k in ("Complete", "Partial", "Err(TooManyHeaders)", "Err(HeaderName)", "Err(Token)"):
        if c.get("earlier_outcome:" + k, 0) < 20:
            ver.inconclusive.append("floor: earlier-call outcome %s seen only %d times" % (k, c.get("earlier_outcome:" + k, 0)))
    if c.get("probe_on_shrunk_headers_slice", 0) < 20:
        ver.inconclusive.append("floor: probe after a shrinking Complete seen too rarely")
    if ver.tier == "thorough":
        res = run_shards("rel-dbg", "C18", "quick", ver.seed, NCPU, timeout=3600)
        ver.add_run("native debug-assertions", "rel-dbg", "quick", res)
    import engines
    engines.extra(ver)
    rule = ("A case is a history of 1..4 earlier parse calls (entry point among init / with-config / uninit variants, own config, "
            "own buffer: templates, grammar-random, mutated, prefixes or extensions of the probe buffer) on ONE Request/Response "
            "value over an array of capacity in {0,1,2,3,4,6,16,64}, followed by a probe; the probe is repeated on a fresh value "
            "whose array has the length the reused value's headers slice had just before the probe. Status must be equal and, on "
            "Complete, all fields and headers. distinct_nontrivial = distinct histories by hash of all steps.")
    return ver.finish(rule, plans.ASSUME_COMMON)


# ---------------------------------------------------------------- C20

def callgrind_ir(binp, fam, n, bk, outdir):
    out = os.path.join(outdir, "cg-%d-%d-%d.out" % (fam, n, bk))
    cmd = ["valgrind", "--tool=callgrind", "--toggle-collect=measured_inner", "--callgrind-out-file=" + out, binp, str(fam), str(n), str(bk)]
    r = subprocess.run(cmd, stdout=subprocess.PIPE, stderr=subprocess.STDOUT, text=True, timeout=3600)
    ir = None
    length = None
    name = None
    try:
        for line in open(out):
            if line.startswith("totals:") or line.startswith("summary:"):
                ir = int(line.split()[1])
        os.remove(out)
        mm = re.search(r'"family":"([^"]+)","len":(\d+)', r.stdout)
        if mm:
            name, length = mm.group(1), int(mm.group(2))
    except Exception:
        pass
    return fam, n, bk, ir, length, name, r.stdout[-400:]


C20_IR_PER_BYTE = 400
C20_IR_CONST = 100000
C20_RATIO = 4.6


def c20(ver):
    canaries(ver)
    wt = "quick" if ver.tier == "quick" else "thorough"
    res = run_shards("rel", "C20", wt, ver.seed, NCPU, timeout=7200)
    m = ver.add_run("native release: hook counters (cursor travel, byte reads, block peeks, cursor operations) around each call", "rel", wt, res)
    if not m["maxes"].get("max_reads_per_byte"):
        ver.inconclusive.append("hook counters never observed")
    # callgrind: instruction counts of the measured region, hook-independent scaling check
    d = build("rel")
    binp = os.path.join(d, "scale")
    outdir = vd.scratch_dir()
    sizes = [1 << 12, 1 << 14, 1 << 16] if ver.tier == "quick" else [1 << 12, 1 << 14, 1 << 16, 1 << 18, 1 << 20]
    fams = list(range(61))
    bks = [1, 2, 3]   # AVX2, SSE4.2, scalar forced in turn
    jobs = [(f, n, b) for f in fams for n in sizes for b in bks]
    with ThreadPoolExecutor(max_workers=NCPU) as ex:
        cg = list(ex.map(lambda j: callgrind_ir(binp, j[0], j[1], j[2], outdir), jobs))
    table = {}
    for fam, n, bk, ir, length, name, tail in cg:
        if ir is None or length is None:
            ver.inconclusive.append("callgrind run failed for family %d n=%d backend=%d: %s" % (fam, n, bk, tail))
            continue
        table.setdefault((fam, bk, name), []).append((length, ir))
    worst_ratio, worst_per_byte = 0.0, 0.0
    for (fam, bk, name), pts in table.items():
        pts.sort()
        for (l0, i0), (l1, i1) in zip(pts, pts[1:]):
            ratio = i1 / max(i0, 1)
            growth = l1 / l0
            norm = ratio / growth * 4.0   # normalised to a 4x size step
            worst_ratio = max(worst_ratio, norm)
            if norm > C20_RATIO and i1 > 200000:
                ver.violations.append(dict(property="C20", rule="instruction_count_superlinear", variant="rel", signature=None,
                                           detail="family %s backend %d: Ir(%d bytes)=%d, Ir(%d bytes)=%d: ratio %.2f for a %.2fx longer input" % (name, bk, l0, i0, l1, i1, ratio, growth),
                                           replay=["scale", str(fam), str(l1), str(bk)]))
        for (l, i) in pts:
            worst_per_byte = max(worst_per_byte, (i - C20_IR_CONST) / l)
            if i > C20_IR_PER_BYTE * l + C20_IR_CONST:
                ver.violations.append(dict(property="C20", rule="instruction_count_per_byte_too_high", variant="rel", signature=None,
                                           detail="family %s backend %d: %d instructions for %d bytes" % (name, bk, i, l),
                                           replay=["scale", str(fam), str(l), str(bk)]))
    ver.evaluations += len(cg)
    ver.extra["callgrind"] = dict(runs=len(cg), families=len(fams), sizes=sizes, backends=bks,
                                  worst_Ir_ratio_normalised_to_4x_step=round(worst_ratio, 3),
                                  worst_Ir_per_byte=round(worst_per_byte, 2), bound_ratio=C20_RATIO, bound_Ir_per_byte=C20_IR_PER_BYTE,
                                  sample_points=[dict(family=k[2], backend=k[1], points=v) for k, v in list(sorted(table.items()))[:6]])
    import engines
    engines.extra(ver)
    rule = ("A case is one parse of an adversarial-family input (61 families: folded 1-byte lines, ignored lines, whitespace runs in "
            "every position, TAB runs/alternation, near-miss blocks every 8/33 bytes, tiny headers with capacity N and 0, 1 MiB-class "
            "target/name/value/reason, leading empty lines, chunk extensions, multi-space delimiters, ...) at several sizes x forced "
            "backend, plus every other entry point of the kind, a cut at 2/3, and large grammar-random inputs. Oracle 1 (hook "
            "counters): no backward cursor move, travel <= len and == n on Complete, reads <= 4*len+256, block peeks <= 2.5*len+256, "
            "cursor operations <= 8*len+256 (observed maxima in `maxima`). Oracle 2 (callgrind): instructions of the measured region "
            "at sizes 4x apart must grow <= 4.6x and stay <= 400*len+1e5. distinct_nontrivial = distinct (input, backend) pairs.")
    return ver.finish(rule, plans.ASSUME_COMMON + ["callgrind instruction counts are deterministic; wall time is never a verdict"])


PLANS = {"C12": c12, "C13": c13, "C18": c18, "C20": c20}
