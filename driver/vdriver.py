"""Core of the check driver: variants, builds, sharded runs, merging,
evidence, known findings, verdicts."""
import hashlib, json, os, shutil, signal, subprocess, sys, time
from concurrent.futures import ThreadPoolExecutor

VERIF = os.path.dirname(os.path.dirname(os.path.abspath(__file__)))
REPO = os.environ.get("VERIF_REPO", "/repo")
HARNESS = os.path.join(VERIF, "harness")
NCPU = int(os.environ.get("VERIF_JOBS", "16"))
TARGET_ROOT = os.path.join(VERIF, "target")
OUT_ROOT = os.environ.get("VERIF_OUT_ROOT", VERIF)  # evidence/ and replay/ go here (mutant runs redirect it)
BASE_FLAGS = "--cfg httparse_verif"


def scratch_dir():
    """Per-process scratch directory for shard outputs, journals, callgrind files: two checks running at
    the same time (e.g. against different scratch repositories) must not clobber each other's files."""
    d = os.path.join(TARGET_ROOT, "out", "p%d" % os.getpid())
    os.makedirs(d, exist_ok=True)
    return d


def _cleanup_scratch():
    shutil.rmtree(os.path.join(TARGET_ROOT, "out", "p%d" % os.getpid()), ignore_errors=True)


import atexit
atexit.register(_cleanup_scratch)


class Inconclusive(Exception):
    pass


def log(*a):
    print(*a, flush=True)


# ---------------------------------------------------------------- variants

def variant(name):
    """name = base[-dbg]; returns dict describing how to build/run it."""
    v = dict(name=name, tc=None, profile="release", rustflags=BASE_FLAGS, env={}, cargo_args=[], target=None,
             kind="native", runner=[])
    base = name
    if name.endswith("-dbg"):
        base = name[:-4]
        v["profile"] = "dev"
    if base == "rel":
        pass
    elif base == "ovf":
        # release code generation (debug_assertions off) but with arithmetic overflow checks on:
        # silent wrapping in release becomes a panic
        v["rustflags"] += " -Coverflow-checks=on"
    elif base == "sse42ct":
        v["rustflags"] += " -Ctarget-feature=+sse4.2"
    elif base == "avx2ct":
        v["rustflags"] += " -Ctarget-feature=+avx2"
    elif base == "nosimd":
        v["env"]["CARGO_CFG_HTTPARSE_DISABLE_SIMD"] = "1"
    elif base == "nostd":
        v["cargo_args"] += ["--no-default-features"]
    elif base == "asan":
        v["tc"] = "+nightly"
        v["rustflags"] += " -Zsanitizer=address -Cforce-frame-pointers=yes"
        v["target"] = "x86_64-unknown-linux-gnu"
        v["env_run"] = {"ASAN_OPTIONS": "halt_on_error=1:abort_on_error=1:detect_leaks=0", "VERIF_ARENA": "heap"}
        v["kind"] = "asan"
    elif base == "tsan":
        v["tc"] = "+nightly"
        v["rustflags"] += " -Zsanitizer=thread"
        v["target"] = "x86_64-unknown-linux-gnu"
        v["cargo_args"] += ["-Zbuild-std"]
        v["env_run"] = {"TSAN_OPTIONS": "halt_on_error=1:exitcode=66"}
        v["kind"] = "tsan"
    elif base == "memcheck":
        v["kind"] = "memcheck"
        v["builds_as"] = "rel"
        v["runner"] = ["valgrind", "--tool=memcheck", "--error-exitcode=97", "--partial-loads-ok=no", "-q",
                       "--undef-value-errors=yes"]
        v["env_run"] = {"VERIF_ARENA": "heap"}
    elif base.startswith("miri"):
        v["kind"] = "miri"
        v["tc"] = "+nightly"
        v["profile"] = "dev"
        v["miriflags"] = "-Zmiri-disable-isolation -Zmiri-ignore-leaks"
        if base == "miri-swar":
            pass
        elif base == "miri-avx2":
            v["rustflags"] += " --cfg httparse_simd --cfg httparse_simd_target_feature_avx2 -Ctarget-feature=+avx2"
        elif base == "miri-sse42":
            v["rustflags"] += " --cfg httparse_simd --cfg httparse_simd_target_feature_sse42 -Ctarget-feature=+sse4.2"
        elif base == "miri-rt":
            v["rustflags"] += " --cfg httparse_simd -Ctarget-feature=+avx2,+sse4.2"
        elif base == "miri-tb":
            v["miriflags"] += " -Zmiri-tree-borrows"
        elif base == "miri-avx2-tb":
            v["rustflags"] += " --cfg httparse_simd --cfg httparse_simd_target_feature_avx2 -Ctarget-feature=+avx2"
            v["miriflags"] += " -Zmiri-tree-borrows"
        else:
            raise ValueError(name)
    else:
        raise ValueError("unknown variant " + name)
    return v


def manifest_dir():
    """The harness manifest; for a non-default VERIF_REPO a generated copy
    with absolute paths (the sources stay in /verif/harness)."""
    if REPO == "/repo":
        return HARNESS
    h = hashlib.sha1(REPO.encode()).hexdigest()[:10]
    d = os.path.join(TARGET_ROOT, "manifest-" + h)
    os.makedirs(d, exist_ok=True)
    txt = open(os.path.join(HARNESS, "Cargo.toml")).read()
    txt = txt.replace('path = "/repo"', 'path = "%s"' % REPO)
    txt = txt.replace('build = "build.rs"', 'build = "%s/build.rs"' % HARNESS)
    txt = txt.replace('path = "src/lib.rs"', 'path = "%s/src/lib.rs"' % HARNESS)
    for f in sorted(os.listdir(os.path.join(HARNESS, "src", "bin"))):
        if f.endswith(".rs"):
            txt += '\n[[bin]]\nname = "%s"\npath = "%s/src/bin/%s"\n' % (f[:-3], HARNESS, f)
    p = os.path.join(d, "Cargo.toml")
    if not os.path.exists(p) or open(p).read() != txt:
        open(p, "w").write(txt)
    return d


def target_dir(v):
    name = v.get("builds_as", v["name"])
    suffix = "" if REPO == "/repo" else "-" + hashlib.sha1(REPO.encode()).hexdigest()[:10]
    return os.path.join(TARGET_ROOT, name + suffix)


_built = {}


def build(vname):
    """Build the harness for a variant from the current working tree of REPO.
    Returns the directory holding the binaries (native kinds)."""
    v = variant(vname)
    if "builds_as" in v:
        return build(v["builds_as"])
    if vname in _built:
        return _built[vname]
    td = target_dir(v)
    env = dict(os.environ)
    env.update(v["env"])
    env["RUSTFLAGS"] = v["rustflags"]
    env["CARGO_NET_OFFLINE"] = "true"
    env["VERIF_REPO"] = REPO
    t0 = time.time()
    if v["kind"] == "miri":
        # the build happens as part of `cargo miri run` in each shard (cargo serialises it)
        _built[vname] = td
        return td
    cmd = ["cargo"] + ([v["tc"]] if v["tc"] else []) + ["build", "--offline" if not v["tc"] else "--offline",
                                                         "--manifest-path", os.path.join(manifest_dir(), "Cargo.toml"),
                                                         "--target-dir", td, "--bins"]
    if v["profile"] == "release":
        cmd.append("--release")
    if v["target"]:
        cmd += ["--target", v["target"]]
    cmd += v["cargo_args"]
    r = subprocess.run(cmd, env=env, stdout=subprocess.PIPE, stderr=subprocess.STDOUT, text=True)
    if r.returncode != 0:
        raise Inconclusive("build failed for variant %s (%s):\n%s" % (vname, " ".join(cmd), r.stdout[-4000:]))
    sub = "release" if v["profile"] == "release" else "debug"
    d = os.path.join(td, v["target"], sub) if v["target"] else os.path.join(td, sub)
    _built[vname] = d
    log("  built %-14s in %.1fs" % (vname, time.time() - t0))
    return d


def worker_cmd(vname, args):
    """Command line + env to run `worker args` under a variant."""
    v = variant(vname)
    env = dict(os.environ)
    env.update(v.get("env_run", {}))
    env["VERIF_REPO"] = REPO
    if v["kind"] == "miri":
        env["RUSTFLAGS"] = v["rustflags"]
        env["MIRIFLAGS"] = v["miriflags"]
        env["CARGO_NET_OFFLINE"] = "true"
        cmd = ["cargo", "+nightly", "miri", "run", "--quiet", "--manifest-path", os.path.join(manifest_dir(), "Cargo.toml"),
               "--target-dir", target_dir(v), "--bin", "worker", "--"] + args
        return cmd, env
    d = build(vname)
    return v["runner"] + [os.path.join(d, "worker")] + args, env


# ---------------------------------------------------------------- running shards

SIGNAMES = {getattr(signal, n): n for n in dir(signal) if n.startswith("SIG") and not n.startswith("SIG_")}


def run_one(vname, prop, tier, seed, shard, nshards, outdir, extra_env, timeout):
    out = os.path.join(outdir, "%s-%s-%d.json" % (prop, vname, shard))
    if os.path.exists(out):
        os.remove(out)
    args = [prop, "--tier", tier, "--seed", str(seed), "--shard", "%d/%d" % (shard, nshards), "--out", out]
    cmd, env = worker_cmd(vname, args)
    env.update(extra_env or {})
    t0 = time.time()
    try:
        r = subprocess.run(cmd, env=env, stdout=subprocess.PIPE, stderr=subprocess.STDOUT, text=True, timeout=timeout,
                           errors="replace")
    except subprocess.TimeoutExpired:
        return dict(shard=shard, status="timeout", wall=time.time() - t0, cmd=cmd, env_extra=extra_env)
    res = dict(shard=shard, rc=r.returncode, wall=time.time() - t0, output=r.stdout[-6000:], cmd=cmd, env_extra=extra_env)
    if r.returncode == 0 and os.path.exists(out):
        try:
            res["data"] = json.load(open(out))
            res["status"] = "ok"
        except Exception as e:
            res["status"] = "badjson"
            res["output"] += "\n" + str(e)
    elif r.returncode < 0 or r.returncode in (134, 139, 135, 132, 136):
        res["status"] = "signal"
        res["signal"] = SIGNAMES.get(-r.returncode, str(r.returncode)) if r.returncode < 0 else "exit%d" % r.returncode
    elif variant(vname)["kind"] == "memcheck" and r.returncode == 97:
        res["status"] = "tool_report"
    elif variant(vname)["kind"] == "tsan" and r.returncode == 66:
        res["status"] = "tool_report"
    elif variant(vname)["kind"] == "miri" and ("Undefined Behavior" in r.stdout or "error: memory leaked" in r.stdout or "error: deadlock" in r.stdout):
        res["status"] = "tool_report"
    else:
        res["status"] = "harness_error"
        if variant(vname)["kind"] == "miri" and not (extra_env or {}).get("_retried") and \
                ("error: extern location" in r.stdout or "could not compile" in r.stdout):
            # a cargo-level build hiccup, not an observation of the code under test: one retry
            e2 = dict(extra_env or {})
            e2["_retried"] = "1"
            return run_one(vname, prop, tier, seed, shard, nshards, outdir, e2, timeout)
    return res


def journal_rerun(vname, prop, tier, seed, shard, nshards, outdir, extra_env, timeout):
    """Re-run a crashed shard with the crash journal on; returns the replay args of the last case."""
    jp = os.path.join(outdir, "journal-%s-%s-%d.txt" % (prop, vname, shard))
    if os.path.exists(jp):
        os.remove(jp)
    env = dict(extra_env or {})
    env["VERIF_JOURNAL"] = jp
    r = run_one(vname, prop, tier, seed, shard, nshards, outdir, env, timeout * 4)
    if os.path.exists(jp):
        line = open(jp, errors="replace").read().strip()
        return line.split(" ") if line else None, r
    return None, r


def run_shards(vname, prop, tier, seed, nshards=None, extra_env=None, timeout=600, jobs=None):
    nshards = nshards or NCPU
    outdir = scratch_dir()
    build(vname)
    if variant(vname)["kind"] == "miri":
        # `cargo miri run` builds as part of running; do that once, alone, before the shards start in
        # parallel (16 concurrent cargo invocations on a cold target dir once produced
        # "extern location for hverif does not exist" in one of them)
        cmd, env = worker_cmd(vname, ["help"])
        subprocess.run(cmd, env=env, stdout=subprocess.PIPE, stderr=subprocess.STDOUT, text=True, timeout=1800)
    with ThreadPoolExecutor(max_workers=jobs or NCPU) as ex:
        futs = [ex.submit(run_one, vname, prop, tier, seed, s, nshards, outdir, extra_env, timeout) for s in range(nshards)]
        res = [f.result() for f in futs]
    return res


# ---------------------------------------------------------------- merging

def merge(results):
    m = dict(evaluations=0, distinct=0, hist={}, entries={}, cfgs=0, caps=set(), lens=set(), lens_max=0, aligns=0, places=0,
             backends=0, counters={}, maxes={}, samples=[], violations=[], notes=[], wall_max=0.0)
    for r in results:
        d = r.get("data")
        if not d:
            continue
        m["evaluations"] += d["evaluations"]
        m["distinct"] += d["distinct"]
        for k, v in d["hist"].items():
            m["hist"][k] = m["hist"].get(k, 0) + v
        for k, v in d["entries"].items():
            m["entries"][k] = m["entries"].get(k, 0) + v
        m["cfgs"] |= int(d["cfgs_lo"], 16)
        m["caps"].update(d["caps"])
        m["lens"].update(d["lens"])
        m["lens_max"] = max(m["lens_max"], d["lens_max"])
        m["aligns"] |= d["aligns"]
        m["places"] |= d["places"]
        m["backends"] |= d["backends"]
        for k, v in d["counters"].items():
            m["counters"][k] = m["counters"].get(k, 0) + v
        for k, v in d["maxes"].items():
            m["maxes"][k] = max(m["maxes"].get(k, v), v)
        if len(m["samples"]) < 12:
            k = len(m["samples"]) % 3
            m["samples"] += (d["samples"][k::3] or d["samples"])[:3]
        m["violations"] += d["violations"]
        m["notes"] += d["notes"]
        m["wall_max"] = max(m["wall_max"], d.get("wall_s", 0))
    return m


BACKEND_BITS = ["swar_uri", "swar_value", "swar_name", "sse42_uri", "sse42_value", "avx2_uri", "avx2_value", "neon_uri",
                "neon_value", "neon_name"]


def summarize(m):
    """JSON-able observation summary of a merged run."""
    return dict(
        evaluations=m["evaluations"], distinct=m["distinct"],
        outcomes={k: v for k, v in m["hist"].items() if v}, entry_points={k: v for k, v in m["entries"].items() if v},
        configs_seen=bin(m["cfgs"]).count("1"), capacities=sorted(m["caps"])[:40], distinct_lengths=len(m["lens"]),
        max_length=m["lens_max"], alignments_mod32_seen=bin(m["aligns"]).count("1"),
        placements=[n for i, n in enumerate(["end_abutting_guard_page", "start_after_guard_page", "mid_aligned", "page_boundary_inside_buffer"]) if m["places"] >> i & 1],
        scanner_functions_entered=[n for i, n in enumerate(BACKEND_BITS) if m["backends"] >> i & 1],
        counters={k: v for k, v in sorted(m["counters"].items()) if not k.startswith("suffix_used:")} if len(m["counters"]) < 400 else dict(list(sorted(m["counters"].items()))[:400]),
        maxima=m["maxes"])


# ---------------------------------------------------------------- known findings / verdicts

def load_known():
    p = os.environ.get("VERIF_KNOWN_FILE", os.path.join(VERIF, "known_findings.json"))
    if not os.path.exists(p):
        return []
    return json.load(open(p))


class Verdict:
    def __init__(self, prop, tier, seed):
        self.prop, self.tier, self.seed = prop, tier, seed
        self.violations = []     # dicts with property, rule, detail, replay, variant
        self.known_hits = {}     # signature -> count
        self.inconclusive = []
        self.engines = []        # per-run summaries for the evidence
        self.samples = []
        self.evaluations = 0
        self.distinct = 0
        self.extra = {}
        self.t0 = time.time()
        self.known = [k for k in load_known() if k.get("property") == prop]

    def add_violation(self, v, vname):
        sig = v.get("signature")
        for k in self.known:
            if k.get("status") == "known" and sig and k.get("signature", {}).get("rule") == sig:
                self.known_hits[sig] = self.known_hits.get(sig, 0) + 1
                return
        v = dict(v)
        v["variant"] = vname
        self.violations.append(v)

    def add_run(self, label, vname, tier, results, floor=None):
        """Fold one sharded run in. Crashes are turned into violations via the journal re-run."""
        m = merge(results)
        for v in m["violations"]:
            self.add_violation(v, vname)
        crashes = 0
        for r in results:
            st = r["status"]
            if st == "ok":
                continue
            if st == "timeout":
                self.inconclusive.append("%s shard %d: watchdog expired" % (label, r["shard"]))
            elif st in ("signal", "tool_report"):
                crashes += 1
                if crashes <= 2:
                    # witness via the journaled re-run (slow under Miri / valgrind): two per run are enough
                    self._crash(label, vname, tier, r)
                elif not any(v.get("rule") == "memory_safety_or_abort" and v.get("variant") == vname for v in self.violations):
                    self._crash(label, vname, tier, r)
            else:
                self.inconclusive.append("%s shard %d: harness error rc=%s: %s" % (label, r["shard"], r.get("rc"), r.get("output", "")[-1500:]))
        s = summarize(m)
        s["engine"] = label
        s["variant"] = vname
        s["worker_tier"] = tier
        s["shards"] = len(results)
        s["wall_s_max_shard"] = round(m["wall_max"], 2)
        self.engines.append(s)
        self.evaluations += m["evaluations"]
        self.distinct = max(self.distinct, m["distinct"])
        if len(self.samples) < 10:
            self.samples += m["samples"][: (10 - len(self.samples))]
        return m

    def _crash(self, label, vname, tier, r):
        what = r.get("signal", "tool report")
        nsh = None
        for i, a in enumerate(r["cmd"]):
            if a == "--shard":
                nsh = int(r["cmd"][i + 1].split("/")[1])
        args, rr = journal_rerun(vname, self.prop, tier, self.seed, r["shard"], nsh, scratch_dir(), r.get("env_extra"), 900)
        if rr["status"] == "ok":
            self.inconclusive.append("%s shard %d died (%s) but the journaled re-run passed" % (label, r["shard"], what))
            return
        detail = "worker died: %s under %s; tool output tail: %s" % (what, label, r.get("output", "")[-1200:])
        if args:
            self.add_violation(dict(property=self.prop, rule="memory_safety_or_abort", detail=detail, replay=args, signature=None), vname)
        else:
            self.inconclusive.append("%s shard %d died (%s) and no journal was written: %s" % (label, r["shard"], what, r.get("output", "")[-800:]))

    # ---- finishing
    def finish(self, rule, assumptions, extra_cov=None, exhaustive=None):
        os.makedirs(os.path.join(OUT_ROOT, "evidence"), exist_ok=True)
        os.makedirs(os.path.join(OUT_ROOT, "replay"), exist_ok=True)
        cov = dict(evaluations=int(self.evaluations), distinct_nontrivial=int(self.distinct), rule=rule,
                   samples=self.samples[:10], engines=self.engines)
        cov.update(self.extra)
        if extra_cov:
            cov.update(extra_cov)
        if exhaustive is not None:
            cov["exhaustive"] = exhaustive
        if not cov["samples"]:
            self.inconclusive.append("no sample cases were recorded")
            cov["samples"] = ["none recorded"]
        if self.inconclusive:
            cov["inconclusive"] = self.inconclusive[:20]
        if self.known_hits:
            cov["known_findings_hit"] = self.known_hits
        ev = dict(property_id=self.prop, tier=self.tier, seed=int(self.seed), level="exploration", coverage=cov,
                  assumptions=assumptions, wall_s=round(time.time() - self.t0, 2), violations=len(self.violations))
        json.dump(ev, open(os.path.join(OUT_ROOT, "evidence", self.prop + ".json"), "w"), indent=1)
        for k in self.known:
            if k.get("status") == "known":
                sig = k.get("signature", {}).get("rule")
                if self.known_hits.get(sig):
                    log("KNOWN-FINDING: property=%s %s (%d cases)" % (self.prop, k.get("what", sig), self.known_hits[sig]))
        if self.violations:
            seen = set()
            n = 0
            for v in self.violations:
                key = (v["rule"], v.get("variant"))
                if key in seen and n >= 3:
                    continue
                seen.add(key)
                n += 1
                if n > 12:
                    break
                path = os.path.join(OUT_ROOT, "replay", "%s-%d.json" % (self.prop, n))
                json.dump(v, open(path, "w"), indent=1)
                log("VIOLATION property=%s replay=%s" % (self.prop, path))
                log("   rule=%s variant=%s %s" % (v["rule"], v.get("variant"), v["detail"][:600]))
            return 1
        if self.inconclusive:
            for i in self.inconclusive[:10]:
                log("INCONCLUSIVE: " + i[:1500])
            return 2
        log("OK property=%s tier=%s seed=%s evaluations=%d distinct=%d wall=%.1fs" % (self.prop, self.tier, self.seed, self.evaluations, self.distinct, time.time() - self.t0))
        return 0


# ---------------------------------------------------------------- canaries

def canaries(ver, vname="rel", need_guard=True):
    d = build(vname)
    w = os.path.join(d, "worker")
    r = subprocess.run([w, "canary", "oracles"], stdout=subprocess.PIPE, stderr=subprocess.STDOUT, text=True)
    if r.returncode != 0:
        ver.inconclusive.append("oracle canaries did not all fire:\n" + r.stdout[-2000:])
    n = r.stdout.count(" ok")
    fired = dict(oracle_canaries_ok=n)
    if need_guard:
        for c in ("overread", "overwrite"):
            rr = subprocess.run([w, "canary", c], stdout=subprocess.PIPE, stderr=subprocess.STDOUT, text=True)
            ok = rr.returncode == -signal.SIGSEGV or rr.returncode == 139
            fired["guard_page_" + c] = "SIGSEGV" if ok else "rc=%d" % rr.returncode
            if not ok:
                ver.inconclusive.append("guard-page canary %s did not fault (rc=%d)" % (c, rr.returncode))
    ver.extra["canaries"] = fired


def replay(prop, path):
    v = json.load(open(path))
    vname = v.get("variant") or "rel"
    if v.get("replay_cmd"):
        log("replaying via command: " + " ".join(v["replay_cmd"]))
        r = subprocess.run(v["replay_cmd"], cwd=VERIF)
        return 1 if r.returncode != 0 else 0
    cmd, env = worker_cmd(vname, ["replay"] + v["replay"])
    log("replaying %s under variant %s" % (path, vname))
    r = subprocess.run(cmd, env=env)
    if r.returncode == 0:
        return 0
    if r.returncode == 1:
        log("VIOLATION property=%s replay=%s" % (prop, path))
        return 1
    if r.returncode < 0 or r.returncode in (134, 139, 97, 66):
        log("worker died with %s" % r.returncode)
        log("VIOLATION property=%s replay=%s" % (prop, path))
        return 1
    return 2


def main(argv):
    if len(argv) < 2:
        print(__doc__ or "usage: check <ID> <quick|thorough> | check <ID> --replay F")
        return 2
    prop = argv[0]
    try:
        if argv[1] == "--replay":
            return replay(prop, argv[2])
        tier = argv[1]
        seed = int(os.environ.get("VERIF_SEED", "1"))
        import plans
        return plans.run(prop, tier, seed)
    except Inconclusive as e:
        log("INCONCLUSIVE: " + str(e)[:3000])
        return 2
