#![no_main]
//! Engine E12: libFuzzer as a coverage-guided workload generator for the
//! per-call oracles. Byte 0 selects the entry point, byte 1 the config,
//! byte 2 the capacity; the rest is the buffer. The property whose oracle is
//! applied comes from VERIF_FUZZ_PROP.
use libfuzzer_sys::fuzz_target;

fuzz_target!(|data: &[u8]| {
    if let Some(msg) = hverif::fuzzglue::fuzz_one(data) {
        eprintln!("FUZZ-VIOLATION {}", msg);
        std::process::abort();
    }
});
