#!/usr/bin/env python3
"""Generates the client-program corpus for the static clause of C04: programs
under fail/ each try ONE way of letting a parsed slice outlive or alias-mutate
its buffer / header array and must be rejected by the borrow checker; programs
under pass/ are documented usage patterns that must keep compiling."""
import os
H = os.path.dirname(os.path.abspath(__file__))
PRE = "#![allow(unused)]\nuse httparse::{Request, Response, Header, ParserConfig, Status, EMPTY_HEADER, parse_headers};\nuse std::mem::MaybeUninit;\n"
REQ = 'b"GET /p HTTP/1.1\\r\\nHost: h\\r\\n\\r\\n"'
RESP = 'b"HTTP/1.1 200 OK\\r\\nHost: h\\r\\n\\r\\n"'
# (name, kind, parse statement given r,buf[,u], uses uninit)
ENTRIES = [
 ("parse", "req", "let _ = r.parse(&buf);", False),
 ("cfg", "req", "let _ = ParserConfig::default().parse_request(&mut r, &buf);", False),
 ("uninit", "req", "let _ = r.parse_with_uninit_headers(&buf, &mut u);", True),
 ("cfguninit", "req", "let _ = ParserConfig::default().parse_request_with_uninit_headers(&mut r, &buf, &mut u);", True),
 ("parse", "resp", "let _ = r.parse(&buf);", False),
 ("cfg", "resp", "let _ = ParserConfig::default().parse_response(&mut r, &buf);", False),
 ("cfguninit", "resp", "let _ = ParserConfig::default().parse_response_with_uninit_headers(&mut r, &buf, &mut u);", True),
]
FIELDS = {"req": [("method", "r.method", "Option<&str>"), ("path", "r.path", "Option<&str>"), ("hname", "r.headers[0].name", "&str"), ("hvalue", "r.headers[0].value", "&[u8]")],
          "resp": [("reason", "r.reason", "Option<&str>"), ("hname", "r.headers[0].name", "&str"), ("hvalue", "r.headers[0].value", "&[u8]")]}
def mk(kind, uninit):
    ty = "Request" if kind == "req" else "Response"
    msg = REQ if kind == "req" else RESP
    if uninit:
        return msg, "let mut u: [MaybeUninit<Header<'_>>; 4] = [MaybeUninit::uninit(); 4];\n    let mut own: [Header<'_>; 0] = [];\n    let mut r = %s::new(&mut own);" % ty
    return msg, "let mut h = [EMPTY_HEADER; 4];\n    let mut r = %s::new(&mut h);" % ty
n = 0
def w(d, name, body):
    global n
    open(os.path.join(H, d, name + ".rs"), "w").write(PRE + body)
    n += 1
for d in ("fail", "pass"):
    for f in os.listdir(os.path.join(H, d)):
        os.remove(os.path.join(H, d, f))
for en, kind, stmt, un in ENTRIES:
    msg, setup = mk(kind, un)
    for fn, expr, ty in FIELDS[kind]:
        # 1. the field outlives the buffer (buffer dropped at the end of an inner scope)
        if not un:
            w("fail", "outlive_%s_%s_%s" % (kind, en, fn), "pub fn f() {\n    let mut h = [EMPTY_HEADER; 4];\n    let keep;\n    {\n        let buf: Vec<u8> = %s.to_vec();\n        let mut r = %s::new(&mut h);\n        %s\n        keep = %s;\n    }\n    let _ = keep;\n}\n" % (msg, "Request" if kind == "req" else "Response", stmt, expr))
        else:
            w("fail", "outlive_%s_%s_%s" % (kind, en, fn), "pub fn f() {\n    let mut u: [MaybeUninit<Header<'_>>; 4] = [MaybeUninit::uninit(); 4];\n    let mut own: [Header<'_>; 0] = [];\n    let keep;\n    {\n        let buf: Vec<u8> = %s.to_vec();\n        let mut r = %s::new(&mut own);\n        %s\n        keep = %s;\n    }\n    let _ = keep;\n}\n" % (msg, "Request" if kind == "req" else "Response", stmt, expr))
        # 2. the buffer is mutated while the field is alive
        w("fail", "mutate_%s_%s_%s" % (kind, en, fn), "pub fn f() {\n    let mut buf: Vec<u8> = %s.to_vec();\n    %s\n    %s\n    let keep = %s;\n    buf.clear();\n    let _ = keep;\n}\n" % (msg, setup, stmt, expr))
    # 3. returning a field from a function that owns the buffer
    fn, expr, ty = FIELDS[kind][0]
    w("fail", "return_%s_%s" % (kind, en), "pub fn f() -> Option<&'static str> {\n    let buf: Vec<u8> = %s.to_vec();\n    %s\n    %s\n    %s\n}\n" % (msg, setup, stmt, expr))
    # 4. dropping the buffer while a header value is alive
    w("fail", "dropbuf_%s_%s" % (kind, en), "pub fn f() {\n    let buf: Vec<u8> = %s.to_vec();\n    %s\n    %s\n    let keep = r.headers[0].value;\n    drop(buf);\n    let _ = keep;\n}\n" % (msg, setup, stmt))
    # 5. writing to the array the value borrows while the value is still used
    if un:
        w("fail", "arraywrite_%s_%s" % (kind, en), "pub fn f() {\n    let buf: Vec<u8> = %s.to_vec();\n    %s\n    %s\n    u[0] = MaybeUninit::uninit();\n    let _ = r.headers.len();\n}\n" % (msg, setup, stmt))
        w("fail", "arrayoutlive_%s_%s" % (kind, en), "pub fn f() {\n    let buf: Vec<u8> = %s.to_vec();\n    let mut own: [Header<'_>; 0] = [];\n    let mut r = %s::new(&mut own);\n    {\n        let mut u: [MaybeUninit<Header<'_>>; 4] = [MaybeUninit::uninit(); 4];\n        %s\n    }\n    let _ = r.headers.len();\n}\n" % (msg, "Request" if kind == "req" else "Response", stmt))
    else:
        w("fail", "arraywrite_%s_%s" % (kind, en), "pub fn f() {\n    let buf: Vec<u8> = %s.to_vec();\n    %s\n    %s\n    h[0] = EMPTY_HEADER;\n    let _ = r.headers.len();\n}\n" % (msg, setup, stmt))
# reading the caller's ARRAY back after the buffer is gone (the array element lifetime must be tied
# to the buffer lifetime through Request::new / Response::new / parse_headers)
for kind, ty, msg in (("req", "Request", REQ), ("resp", "Response", RESP)):
    for en, stmt in (("parse", "let _ = r.parse(&buf);"), ("cfg", "let _ = ParserConfig::default().parse_%s(&mut r, &buf);" % ("request" if kind == "req" else "response"))):
        w("fail", "array_readback_after_buffer_%s_%s" % (kind, en), "pub fn f() -> usize {\n    let mut h = [EMPTY_HEADER; 4];\n    {\n        let buf: Vec<u8> = %s.to_vec();\n        let mut r = %s::new(&mut h);\n        %s\n    }\n    h[0].value.len() + h[0].name.len()\n}\n" % (msg, ty, stmt))
        w("fail", "array_static_elements_%s_%s" % (kind, en), "pub fn f() -> Header<'static> {\n    let mut h: [Header<'static>; 4] = [EMPTY_HEADER; 4];\n    {\n        let buf: Vec<u8> = %s.to_vec();\n        let mut r = %s::new(&mut h);\n        %s\n    }\n    h[0]\n}\n" % (msg, ty, stmt))
    w("fail", "array_readback_after_buffer_mutated_%s" % kind, "pub fn f() -> usize {\n    let mut h = [EMPTY_HEADER; 4];\n    let mut buf: Vec<u8> = %s.to_vec();\n    {\n        let mut r = %s::new(&mut h);\n        let _ = r.parse(&buf);\n    }\n    buf[0] = b'X';\n    h[0].value.len()\n}\n" % (msg, ty))
w("fail", "array_readback_after_buffer_parse_headers", "pub fn f() -> usize {\n    let mut h = [EMPTY_HEADER; 4];\n    {\n        let buf: Vec<u8> = b\"A: b\\r\\n\\r\\n\".to_vec();\n        let _ = parse_headers(&buf, &mut h);\n    }\n    h[0].value.len()\n}\n")
w("fail", "array_static_elements_parse_headers", "pub fn f() -> Header<'static> {\n    let mut h: [Header<'static>; 4] = [EMPTY_HEADER; 4];\n    {\n        let buf: Vec<u8> = b\"A: b\\r\\n\\r\\n\".to_vec();\n        let _ = parse_headers(&buf, &mut h);\n    }\n    h[0]\n}\n")
w("fail", "uninit_array_readback_after_buffer", "pub fn f() -> usize {\n    let mut u: [MaybeUninit<Header<'_>>; 4] = [MaybeUninit::uninit(); 4];\n    let n;\n    {\n        let buf: Vec<u8> = %s.to_vec();\n        let mut own: [Header<'_>; 0] = [];\n        let mut r = Request::new(&mut own);\n        let _ = r.parse_with_uninit_headers(&buf, &mut u);\n        n = r.headers.len();\n    }\n    let first: &Header<'_> = unsafe_free_read(&u[0]);\n    n + first.name.len()\n}\nfn unsafe_free_read<'a, 'b>(m: &'a MaybeUninit<Header<'b>>) -> &'a Header<'b> { let _ = m; unimplemented!() }\n" % REQ)
# parse_headers
w("fail", "headers_slice_outlives_array", "pub fn f() {\n    let buf: Vec<u8> = b\"A: b\\r\\n\\r\\n\".to_vec();\n    let keep;\n    {\n        let mut h = [EMPTY_HEADER; 4];\n        keep = match parse_headers(&buf, &mut h) { Ok(Status::Complete((_, s))) => s, _ => return };\n    }\n    let _ = keep.len();\n}\n")
w("fail", "headers_slice_outlives_buffer", "pub fn f() {\n    let mut h = [EMPTY_HEADER; 4];\n    let keep;\n    {\n        let buf: Vec<u8> = b\"A: b\\r\\n\\r\\n\".to_vec();\n        keep = match parse_headers(&buf, &mut h) { Ok(Status::Complete((_, s))) => s[0].value, _ => return };\n    }\n    let _ = keep.len();\n}\n")
w("fail", "headers_array_written_while_slice_alive", "pub fn f() {\n    let buf: Vec<u8> = b\"A: b\\r\\n\\r\\n\".to_vec();\n    let mut h = [EMPTY_HEADER; 4];\n    let s = match parse_headers(&buf, &mut h) { Ok(Status::Complete((_, s))) => s, _ => return };\n    h[0] = EMPTY_HEADER;\n    let _ = s.len();\n}\n")
w("fail", "headers_buffer_mutated_while_slice_alive", "pub fn f() {\n    let mut buf: Vec<u8> = b\"A: b\\r\\n\\r\\n\".to_vec();\n    let mut h = [EMPTY_HEADER; 4];\n    let s = match parse_headers(&buf, &mut h) { Ok(Status::Complete((_, s))) => s, _ => return };\n    buf[0] = b'X';\n    let _ = s.len();\n}\n")
w("fail", "bytes_slice_escapes", "pub fn f() {\n    let keep;\n    {\n        let buf: Vec<u8> = vec![1u8, 2, 3];\n        let mut b = httparse::_benchable::Bytes::new(&buf);\n        let _ = b.next();\n        keep = b.slice();\n    }\n    let _ = keep.len();\n}\n")
w("fail", "request_longer_than_array", "pub fn f() -> Request<'static, 'static> {\n    let mut h = [EMPTY_HEADER; 4];\n    Request::new(&mut h)\n}\n")
w("fail", "static_buffer_needed_for_static_field", "pub fn f(buf: &[u8]) -> &'static str {\n    let mut h = [EMPTY_HEADER; 4];\n    let mut r = Request::new(&mut h);\n    let _ = r.parse(buf);\n    r.method.unwrap_or(\"\")\n}\n")
# ---- pass: usage patterns that must keep compiling
w("pass", "readme_loop", "pub fn f(chunks: &[&[u8]]) -> Option<usize> {\n    let mut buf: Vec<u8> = Vec::new();\n    for c in chunks {\n        buf.extend_from_slice(c);\n        let mut h = [EMPTY_HEADER; 16];\n        let mut r = Request::new(&mut h);\n        if let Ok(Status::Complete(n)) = r.parse(&buf) { return Some(n + r.headers.len()); }\n    }\n    None\n}\n")
w("pass", "reuse_value_across_calls", "pub fn f(a: &[u8], b: &[u8]) -> usize {\n    let mut h = [EMPTY_HEADER; 16];\n    let mut r = Request::new(&mut h);\n    let _ = r.parse(a);\n    let _ = r.parse(b);\n    r.headers.len()\n}\n")
w("pass", "fields_used_while_buffer_lives", "pub fn f(buf: &[u8]) -> usize {\n    let mut h = [EMPTY_HEADER; 16];\n    let mut r = Request::new(&mut h);\n    let _ = r.parse(buf);\n    let m = r.method.map_or(0, |m| m.len());\n    let p = r.path.map_or(0, |m| m.len());\n    m + p + r.headers.iter().map(|h| h.name.len() + h.value.len()).sum::<usize>()\n}\n")
w("pass", "field_outlives_request_not_buffer", "pub fn f<'b>(buf: &'b [u8]) -> Option<&'b str> {\n    let mut h = [EMPTY_HEADER; 16];\n    let mut r = Request::new(&mut h);\n    let _ = r.parse(buf);\n    r.path\n}\n")
w("pass", "header_value_outlives_array", "pub fn f<'b>(buf: &'b [u8]) -> Option<&'b [u8]> {\n    let mut h = [EMPTY_HEADER; 16];\n    match parse_headers(buf, &mut h) { Ok(Status::Complete((_, s))) => s.first().map(|x| x.value), _ => None }\n}\n")
w("pass", "array_reused_after_request_dropped", "pub fn f(a: &[u8]) -> usize {\n    let mut h = [EMPTY_HEADER; 16];\n    {\n        let mut r = Request::new(&mut h);\n        let _ = r.parse(a);\n    }\n    h[0] = EMPTY_HEADER;\n    let mut r = Response::new(&mut h);\n    let _ = r.parse(a);\n    r.headers.len()\n}\n")
w("pass", "uninit_headers", "pub fn f(a: &[u8]) -> usize {\n    let mut u: [MaybeUninit<Header<'_>>; 8] = [MaybeUninit::uninit(); 8];\n    let mut r = Request::new(&mut []);\n    let _ = r.parse_with_uninit_headers(a, &mut u);\n    r.headers.len()\n}\n")
w("pass", "response_with_config", "pub fn f<'b>(a: &'b [u8]) -> Option<&'b str> {\n    let mut h = [EMPTY_HEADER; 16];\n    let mut r = Response::new(&mut h);\n    let mut c = ParserConfig::default();\n    c.allow_obsolete_multiline_headers_in_responses(true).ignore_invalid_headers_in_responses(true);\n    let _ = c.parse_response(&mut r, a);\n    r.reason\n}\n")
w("pass", "static_buffer_static_fields", "pub fn f() -> Option<&'static str> {\n    static BUF: &[u8] = b\"GET / HTTP/1.1\\r\\n\\r\\n\";\n    let mut h = [EMPTY_HEADER; 4];\n    let mut r = Request::new(&mut h);\n    let _ = r.parse(BUF);\n    r.method\n}\n")
w("pass", "chunk_size_no_borrow", "pub fn f() -> u64 {\n    let size;\n    {\n        let buf: Vec<u8> = b\"1f\\r\\n\".to_vec();\n        size = match httparse::parse_chunk_size(&buf) { Ok(Status::Complete((_, s))) => s, _ => 0 };\n    }\n    size\n}\n")
print(n, "programs")
