#![allow(unused)]
use httparse::{Request, Response, Header, ParserConfig, Status, EMPTY_HEADER, parse_headers};
use std::mem::MaybeUninit;
pub fn f(a: &[u8]) -> usize {
    let mut h = [EMPTY_HEADER; 16];
    {
        let mut r = Request::new(&mut h);
        let _ = r.parse(a);
    }
    h[0] = EMPTY_HEADER;
    let mut r = Response::new(&mut h);
    let _ = r.parse(a);
    r.headers.len()
}
