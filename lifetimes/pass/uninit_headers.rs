#![allow(unused)]
use httparse::{Request, Response, Header, ParserConfig, Status, EMPTY_HEADER, parse_headers};
use std::mem::MaybeUninit;
pub fn f(a: &[u8]) -> usize {
    let mut u: [MaybeUninit<Header<'_>>; 8] = [MaybeUninit::uninit(); 8];
    let mut r = Request::new(&mut []);
    let _ = r.parse_with_uninit_headers(a, &mut u);
    r.headers.len()
}
