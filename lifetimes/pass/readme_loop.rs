#![allow(unused)]
use httparse::{Request, Response, Header, ParserConfig, Status, EMPTY_HEADER, parse_headers};
use std::mem::MaybeUninit;
pub fn f(chunks: &[&[u8]]) -> Option<usize> {
    let mut buf: Vec<u8> = Vec::new();
    for c in chunks {
        buf.extend_from_slice(c);
        let mut h = [EMPTY_HEADER; 16];
        let mut r = Request::new(&mut h);
        if let Ok(Status::Complete(n)) = r.parse(&buf) { return Some(n + r.headers.len()); }
    }
    None
}
