#![allow(unused)]
use httparse::{Request, Response, Header, ParserConfig, Status, EMPTY_HEADER, parse_headers};
use std::mem::MaybeUninit;
pub fn f<'b>(a: &'b [u8]) -> Option<&'b str> {
    let mut h = [EMPTY_HEADER; 16];
    let mut r = Response::new(&mut h);
    let mut c = ParserConfig::default();
    c.allow_obsolete_multiline_headers_in_responses(true).ignore_invalid_headers_in_responses(true);
    let _ = c.parse_response(&mut r, a);
    r.reason
}
