#![allow(unused)]
use httparse::{Request, Response, Header, ParserConfig, Status, EMPTY_HEADER, parse_headers};
use std::mem::MaybeUninit;
pub fn f(a: &[u8], b: &[u8]) -> usize {
    let mut h = [EMPTY_HEADER; 16];
    let mut r = Request::new(&mut h);
    let _ = r.parse(a);
    let _ = r.parse(b);
    r.headers.len()
}
