#![allow(unused)]
use httparse::{Request, Response, Header, ParserConfig, Status, EMPTY_HEADER, parse_headers};
use std::mem::MaybeUninit;
pub fn f<'b>(buf: &'b [u8]) -> Option<&'b str> {
    let mut h = [EMPTY_HEADER; 16];
    let mut r = Request::new(&mut h);
    let _ = r.parse(buf);
    r.path
}
