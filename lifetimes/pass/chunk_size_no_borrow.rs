#![allow(unused)]
use httparse::{Request, Response, Header, ParserConfig, Status, EMPTY_HEADER, parse_headers};
use std::mem::MaybeUninit;
pub fn f() -> u64 {
    let size;
    {
        let buf: Vec<u8> = b"1f\r\n".to_vec();
        size = match httparse::parse_chunk_size(&buf) { Ok(Status::Complete((_, s))) => s, _ => 0 };
    }
    size
}
