#![allow(unused)]
use httparse::{Request, Response, Header, ParserConfig, Status, EMPTY_HEADER, parse_headers};
use std::mem::MaybeUninit;
pub fn f<'b>(buf: &'b [u8]) -> Option<&'b [u8]> {
    let mut h = [EMPTY_HEADER; 16];
    match parse_headers(buf, &mut h) { Ok(Status::Complete((_, s))) => s.first().map(|x| x.value), _ => None }
}
