#![allow(unused)]
use httparse::{Request, Response, Header, ParserConfig, Status, EMPTY_HEADER, parse_headers};
use std::mem::MaybeUninit;
pub fn f() -> Option<&'static str> {
    static BUF: &[u8] = b"GET / HTTP/1.1\r\n\r\n";
    let mut h = [EMPTY_HEADER; 4];
    let mut r = Request::new(&mut h);
    let _ = r.parse(BUF);
    r.method
}
