#![allow(unused)]
use httparse::{Request, Response, Header, ParserConfig, Status, EMPTY_HEADER, parse_headers};
use std::mem::MaybeUninit;
pub fn f(buf: &[u8]) -> usize {
    let mut h = [EMPTY_HEADER; 16];
    let mut r = Request::new(&mut h);
    let _ = r.parse(buf);
    let m = r.method.map_or(0, |m| m.len());
    let p = r.path.map_or(0, |m| m.len());
    m + p + r.headers.iter().map(|h| h.name.len() + h.value.len()).sum::<usize>()
}
