#![allow(unused)]
use httparse::{Request, Response, Header, ParserConfig, Status, EMPTY_HEADER, parse_headers};
use std::mem::MaybeUninit;
pub fn f() {
    let keep;
    {
        let buf: Vec<u8> = vec![1u8, 2, 3];
        let mut b = httparse::_benchable::Bytes::new(&buf);
        let _ = b.next();
        keep = b.slice();
    }
    let _ = keep.len();
}
