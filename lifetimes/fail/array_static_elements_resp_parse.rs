#![allow(unused)]
use httparse::{Request, Response, Header, ParserConfig, Status, EMPTY_HEADER, parse_headers};
use std::mem::MaybeUninit;
pub fn f() -> Header<'static> {
    let mut h: [Header<'static>; 4] = [EMPTY_HEADER; 4];
    {
        let buf: Vec<u8> = b"HTTP/1.1 200 OK\r\nHost: h\r\n\r\n".to_vec();
        let mut r = Response::new(&mut h);
        let _ = r.parse(&buf);
    }
    h[0]
}
