#![allow(unused)]
use httparse::{Request, Response, Header, ParserConfig, Status, EMPTY_HEADER, parse_headers};
use std::mem::MaybeUninit;
pub fn f() {
    let buf: Vec<u8> = b"HTTP/1.1 200 OK\r\nHost: h\r\n\r\n".to_vec();
    let mut h = [EMPTY_HEADER; 4];
    let mut r = Response::new(&mut h);
    let _ = ParserConfig::default().parse_response(&mut r, &buf);
    let keep = r.headers[0].value;
    drop(buf);
    let _ = keep;
}
