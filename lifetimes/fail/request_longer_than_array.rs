#![allow(unused)]
use httparse::{Request, Response, Header, ParserConfig, Status, EMPTY_HEADER, parse_headers};
use std::mem::MaybeUninit;
pub fn f() -> Request<'static, 'static> {
    let mut h = [EMPTY_HEADER; 4];
    Request::new(&mut h)
}
