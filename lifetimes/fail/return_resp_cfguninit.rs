#![allow(unused)]
use httparse::{Request, Response, Header, ParserConfig, Status, EMPTY_HEADER, parse_headers};
use std::mem::MaybeUninit;
pub fn f() -> Option<&'static str> {
    let buf: Vec<u8> = b"HTTP/1.1 200 OK\r\nHost: h\r\n\r\n".to_vec();
    let mut u: [MaybeUninit<Header<'_>>; 4] = [MaybeUninit::uninit(); 4];
    let mut own: [Header<'_>; 0] = [];
    let mut r = Response::new(&mut own);
    let _ = ParserConfig::default().parse_response_with_uninit_headers(&mut r, &buf, &mut u);
    r.reason
}
