#![allow(unused)]
use httparse::{Request, Response, Header, ParserConfig, Status, EMPTY_HEADER, parse_headers};
use std::mem::MaybeUninit;
pub fn f() -> usize {
    let mut h = [EMPTY_HEADER; 4];
    let mut buf: Vec<u8> = b"HTTP/1.1 200 OK\r\nHost: h\r\n\r\n".to_vec();
    {
        let mut r = Response::new(&mut h);
        let _ = r.parse(&buf);
    }
    buf[0] = b'X';
    h[0].value.len()
}
