#![allow(unused)]
use httparse::{Request, Response, Header, ParserConfig, Status, EMPTY_HEADER, parse_headers};
use std::mem::MaybeUninit;
pub fn f() -> usize {
    let mut u: [MaybeUninit<Header<'_>>; 4] = [MaybeUninit::uninit(); 4];
    let n;
    {
        let buf: Vec<u8> = b"GET /p HTTP/1.1\r\nHost: h\r\n\r\n".to_vec();
        let mut own: [Header<'_>; 0] = [];
        let mut r = Request::new(&mut own);
        let _ = r.parse_with_uninit_headers(&buf, &mut u);
        n = r.headers.len();
    }
    let first: &Header<'_> = unsafe_free_read(&u[0]);
    n + first.name.len()
}
fn unsafe_free_read<'a, 'b>(m: &'a MaybeUninit<Header<'b>>) -> &'a Header<'b> { let _ = m; unimplemented!() }
