#![allow(unused)]
use httparse::{Request, Response, Header, ParserConfig, Status, EMPTY_HEADER, parse_headers};
use std::mem::MaybeUninit;
pub fn f() -> usize {
    let mut h = [EMPTY_HEADER; 4];
    {
        let buf: Vec<u8> = b"A: b\r\n\r\n".to_vec();
        let _ = parse_headers(&buf, &mut h);
    }
    h[0].value.len()
}
