#![allow(unused)]
use httparse::{Request, Response, Header, ParserConfig, Status, EMPTY_HEADER, parse_headers};
use std::mem::MaybeUninit;
pub fn f() -> Header<'static> {
    let mut h: [Header<'static>; 4] = [EMPTY_HEADER; 4];
    {
        let buf: Vec<u8> = b"GET /p HTTP/1.1\r\nHost: h\r\n\r\n".to_vec();
        let mut r = Request::new(&mut h);
        let _ = ParserConfig::default().parse_request(&mut r, &buf);
    }
    h[0]
}
