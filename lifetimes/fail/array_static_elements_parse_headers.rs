#![allow(unused)]
use httparse::{Request, Response, Header, ParserConfig, Status, EMPTY_HEADER, parse_headers};
use std::mem::MaybeUninit;
pub fn f() -> Header<'static> {
    let mut h: [Header<'static>; 4] = [EMPTY_HEADER; 4];
    {
        let buf: Vec<u8> = b"A: b\r\n\r\n".to_vec();
        let _ = parse_headers(&buf, &mut h);
    }
    h[0]
}
