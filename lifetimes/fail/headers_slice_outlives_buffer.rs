#![allow(unused)]
use httparse::{Request, Response, Header, ParserConfig, Status, EMPTY_HEADER, parse_headers};
use std::mem::MaybeUninit;
pub fn f() {
    let mut h = [EMPTY_HEADER; 4];
    let keep;
    {
        let buf: Vec<u8> = b"A: b\r\n\r\n".to_vec();
        keep = match parse_headers(&buf, &mut h) { Ok(Status::Complete((_, s))) => s[0].value, _ => return };
    }
    let _ = keep.len();
}
