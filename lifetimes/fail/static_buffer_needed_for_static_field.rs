#![allow(unused)]
use httparse::{Request, Response, Header, ParserConfig, Status, EMPTY_HEADER, parse_headers};
use std::mem::MaybeUninit;
pub fn f(buf: &[u8]) -> &'static str {
    let mut h = [EMPTY_HEADER; 4];
    let mut r = Request::new(&mut h);
    let _ = r.parse(buf);
    r.method.unwrap_or("")
}
