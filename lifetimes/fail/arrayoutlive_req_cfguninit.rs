#![allow(unused)]
use httparse::{Request, Response, Header, ParserConfig, Status, EMPTY_HEADER, parse_headers};
use std::mem::MaybeUninit;
pub fn f() {
    let buf: Vec<u8> = b"GET /p HTTP/1.1\r\nHost: h\r\n\r\n".to_vec();
    let mut own: [Header<'_>; 0] = [];
    let mut r = Request::new(&mut own);
    {
        let mut u: [MaybeUninit<Header<'_>>; 4] = [MaybeUninit::uninit(); 4];
        let _ = ParserConfig::default().parse_request_with_uninit_headers(&mut r, &buf, &mut u);
    }
    let _ = r.headers.len();
}
