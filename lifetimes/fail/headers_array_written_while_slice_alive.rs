#![allow(unused)]
use httparse::{Request, Response, Header, ParserConfig, Status, EMPTY_HEADER, parse_headers};
use std::mem::MaybeUninit;
pub fn f() {
    let buf: Vec<u8> = b"A: b\r\n\r\n".to_vec();
    let mut h = [EMPTY_HEADER; 4];
    let s = match parse_headers(&buf, &mut h) { Ok(Status::Complete((_, s))) => s, _ => return };
    h[0] = EMPTY_HEADER;
    let _ = s.len();
}
