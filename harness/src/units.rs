//! Per-case evaluation units: `unit_call` applies one property's oracle to one
//! (call, buffer) case -- it is also what `--replay` re-runs -- and
//! `unit_buffer` chooses the calls made for one generated buffer.

use crate::arena::Place;
use crate::gen::Kind;
use crate::obs::{Call, Obs};
use crate::oracles::{self as orc, Cmp};
use crate::props::*;
use crate::spec;
use crate::types::*;

fn place_for(rot: u64) -> Place {
    match rot % 8 {
        0 => Place::Start,
        1 => Place::Mid((rot >> 8) as u8 % 32),
        // a page boundary somewhere inside the first 400 bytes of the buffer
        2 | 3 => Place::Cross(1 + ((rot >> 8) % 400) as u16),
        _ => Place::End,
    }
}

fn hplace_for(rot: u64) -> Place {
    if (rot >> 3) % 4 == 0 {
        Place::Start
    } else {
        Place::End
    }
}

/// Apply the property's per-call oracle. Returns true if a violation was recorded.
pub fn unit_call(w: &mut W, call: Call, data: &[u8], place: Place) -> bool {
    if w.tier == Tier::Tiny {
        // Miri-sized budget: at most 3 calls per generated buffer
        w.tiny_calls += 1;
        if w.tiny_calls > if w.prop == "C02" { 1 } else { 3 } {
            return false;
        }
    }
    let before = w.st.violations.len() as u64 + w.st.counters.get("violations_dropped_over_cap").copied().unwrap_or(0);
    let prop = w.prop.clone();
    match prop.as_str() {
        "C01" => {
            let (o, _b) = w.obs(call, data, place);
            w.check_panic(&o, call, place, data);
            if !o.forced_ok {
                w.st.count("backend_not_forceable", 1);
            }
            if w.st.room(o.res.st.class()) && w.st.evaluations % 41 == 1 {
                w.st.sample_c(o.res.st.class(), sample_j(call, data, &o, "returned normally"));
            }
        }
        "C02" => unit_c02(w, call, data),
        "C03" | "C04" | "C05" | "C19" => {
            let kind = Kind::of(call.entry);
            let (o, b) = w.obs(call, data, place);
            if w.check_panic(&o, call, place, data) {
                return true;
            }
            let f = match prop.as_str() {
                "C03" => orc::c03(kind, b, &o),
                "C04" => orc::c04(b, &o),
                "C05" => orc::c05(kind, b, &o),
                _ => {
                    if o.allocs != 0 {
                        Some(orc::Fail { rule: "heap_allocation_during_call", detail: format!("{} allocator events, outcome {}", o.allocs, o.res.st.show()) })
                    } else {
                        None
                    }
                }
            };
            if let Some(f) = f {
                w.viol(f.rule, f.detail, call, place, data);
            }
            if prop == "C04" {
                for l in [o.res.method, o.res.path, o.res.reason] {
                    if l.span().is_some() {
                        w.st.count("nonempty_slices_located", 1);
                    }
                }
                w.st.count("nonempty_slices_located", o.res.headers.iter().map(|(n, v)| n.span().is_some() as u64 + v.span().is_some() as u64).sum());
                w.st.count("zero_length_slices_seen", o.res.headers.iter().filter(|(_, v)| v.is_empty_slice()).count() as u64 + o.res.reason.is_empty_slice() as u64);
            }
            if w.st.room(o.res.st.class()) && w.st.evaluations % 41 == 1 {
                w.st.sample_c(o.res.st.class(), sample_j(call, data, &o, "oracle held"));
            }
        }
        "C06" | "C07" | "C08" | "C09" | "C14" | "C10" => {
            let (o, b) = w.obs(call, data, place);
            if w.check_panic(&o, call, place, data) {
                return true;
            }
            let (s, info) = spec::run(call.entry, data, call.cfg, call.cap);
            w.st.count(&format!("spec_{}", HIST_NAMES[s.st.hist_idx()]), 1);
            let f = match prop.as_str() {
                "C06" | "C07" => orc::vs_spec(b, &o, &s, Cmp { class_only_err: true, start_line: true, headers: false }),
                "C08" | "C14" => orc::vs_spec(b, &o, &s, Cmp { class_only_err: true, start_line: false, headers: true }),
                "C09" => orc::vs_spec(b, &o, &s, Cmp { class_only_err: false, start_line: true, headers: false }),
                _ => {
                    if let (St::Err(k), Some(at)) = (s.st, info.err_at) {
                        let byte = data.get(at).copied().unwrap_or(0);
                        let class = match byte {
                            0 => "NUL",
                            b'\r' => "CR",
                            b'\n' => "LF",
                            b' ' | b'\t' => "WS",
                            0x01..=0x1f | 0x7f => "CTL",
                            0x80..=0xff => "OBS",
                            _ => "VCHAR",
                        };
                        w.st.count(&format!("err_matrix:{}:{}", k.name(), class), 1);
                    }
                    orc::c10(&o, &s)
                }
            };
            if let Some(f) = f {
                let sig = if prop == "C09" { c09_signature(data, &s, &o) } else { None };
                let p = prop.clone();
                w.viol_sig(f.rule, f.detail, call, place, data, sig, &p);
            }
            // The same comparison on a REUSED value (C18 says history must not matter, so the
            // grammar statements hold there too): one earlier call that stores every field, then
            // this call; on Complete the result must still equal the spec's.
            let kind = Kind::of(call.entry);
            if matches!(prop.as_str(), "C06" | "C07" | "C08" | "C14") && (kind == Kind::Req || kind == Kind::Resp) && w.tier != Tier::Tiny && (o.res.st.is_complete() && w.rot(data) % 3 == 0) {
                let is_req = kind == Kind::Req;
                let first: &[u8] = if is_req { b"PUT /earlier/path HTTP/1.0\r\nEarlier: header\r\nSecond:" } else { b"HTTP/1.0 404 Earlier Reason\r\nEarlier: header\r\nSecond:" };
                let fb = w.ctx.place_in(2, first, Place::End);
                let pb = w.ctx.place_in(1, data, Place::End);
                let steps = [
                    crate::history::Step { entry: if is_req { Entry::R1 } else { Entry::S1 }, cfg: 0, buf: fb, ucap: call.cap },
                    crate::history::Step { entry: call.entry, cfg: call.cfg, buf: pb, ucap: call.cap },
                ];
                let h = crate::history::run(&mut w.ctx, is_req, call.cap, &steps, call.backend);
                w.st.evaluations += 2;
                w.st.count("reused_value_spec_comparisons", 1);
                if h.len() == 2 && !h[1].panicked {
                    let mut o2 = o.clone();
                    o2.res = h[1].res.clone();
                    let cmp = if prop == "C06" || prop == "C07" { Cmp { class_only_err: true, start_line: true, headers: false } } else { Cmp { class_only_err: true, start_line: false, headers: true } };
                    if let Some(f) = orc::vs_spec(pb, &o2, &s, cmp) {
                        let d = format!("on a reused value (earlier call {}): {}", crate::report::esc(first), f.detail);
                        w.viol("reused_value_differs_from_spec", d, call, place, data);
                    }
                }
            }
            if prop == "C14" && info.dropped > 0 {
                w.st.count("lines_dropped_by_ignore", info.dropped as u64);
            }
            if w.st.room(o.res.st.class()) && w.st.evaluations % 41 == 1 {
                w.st.sample_c(o.res.st.class(), sample_j(call, data, &o, &format!("spec says {}", s.st.show())));
            }
        }
        "C11" => unit_c11(w, call, data),
        "C15" => unit_c15(w, call, data),
        "C16" => unit_c16(w, call, data),
        "C17" => {
            let (o, b) = w.obs(call, data, place);
            if w.check_panic(&o, call, place, data) {
                return true;
            }
            let b_owned = b.to_vec();
            // the ample-capacity reference run uses the initialised-array counterpart of the entry
            // point, whose array can be inspected after Partial/Err also under Miri
            let ample_entry = match call.entry {
                Entry::R3 => Entry::R1,
                Entry::R4 => Entry::R2,
                Entry::S4 => Entry::S2,
                e => e,
            };
            let ample = Call { cap: ample_cap(data).max(call.cap + 2), entry: ample_entry, ..call };
            let (a, b2) = w.obs(ample, &b_owned, place);
            let (_sres, sinfo) = spec::run(ample.entry, &b_owned, ample.cfg, ample.cap);
            if let Some(f) = orc::c17_ref(b2, &o, &a, Some(sinfo.stored)) {
                w.viol(f.rule, f.detail, call, place, data);
            }
            if o.res.st == St::Err(ErrK::TooManyHeaders) {
                w.st.count("too_many_headers_seen", 1);
                if call.cap == 0 {
                    w.st.count("cap0_with_headers_seen", 1);
                }
            }
            w.st.count(&format!("outcome:{}:{}", call.entry.name(), ["Complete", "Partial", "Err"][o.res.st.class() as usize]), 1);
            if w.st.room(o.res.st.class()) && w.st.evaluations % 41 == 1 {
                w.st.sample_c(o.res.st.class(), sample_j(call, data, &o, &format!("ample run: {}", a.res.st.show())));
            }
        }
        _ => panic!("unit_call: unknown property {}", prop),
    }
    let after = w.st.violations.len() as u64 + w.st.counters.get("violations_dropped_over_cap").copied().unwrap_or(0);
    after > before
}

/// Signature of the (fixed) zero-digit finding, so that a regression is named.
fn c09_signature(data: &[u8], s: &Res, o: &Obs) -> Option<String> {
    let first = data.first().copied();
    let zero_digit = matches!(first, Some(b'\r') | Some(b';') | Some(b' ') | Some(b'\t'));
    if zero_digit && s.st == St::Err(ErrK::ChunkSize) && matches!(o.res.st, St::Complete(_) | St::Partial) && o.res.size == 0 {
        Some("zero_hex_digits_accepted".to_string())
    } else {
        None
    }
}

// ------------------------------------------------------------------ C02

fn unit_c02(w: &mut W, call: Call, data: &[u8]) {
    // chain R(k), k = 0..=len, each on a fresh value, buffer end abutting the guard page
    let mut first_final: Option<(usize, Res)> = None;
    let mut known: (Loc, Loc, Option<u8>, Option<u16>, Loc) = (Loc::None, Loc::None, None, None, Loc::None);
    let mut known_at = 0usize;
    w.st.count("chains", 1);
    for k in 0..=data.len() {
        let (o, b) = w.obs(call, &data[..k], Place::End);
        if w.check_panic(&o, call, Place::End, &data[..k]) {
            return;
        }
        let r = &o.res;
        if let Some((ks, fin)) = &first_final {
            // (ii) stability after the first non-Partial answer
            if !r.same_outcome(fin) {
                let d = format!("prefix {} gave {} but prefix {} gives {}", ks, fin.show(data), k, r.show(b));
                w.viol("final_result_not_stable_under_extension", d, call, Place::End, data);
                return;
            }
        } else {
            // (iii) fields reported with Partial keep their value
            if r.st == St::Partial || r.st.is_complete() {
                let cur = (r.method.canon(), r.path.canon(), r.version, r.code, r.reason.canon());
                let bad = (known.0 != Loc::None && known.0 != cur.0)
                    || (known.1 != Loc::None && known.1 != cur.1)
                    || (known.2.is_some() && known.2 != cur.2)
                    || (known.3.is_some() && known.3 != cur.3)
                    || (known.4 != Loc::None && known.4 != cur.4);
                if bad {
                    let d = format!("fields reported with Partial at prefix {}: {:?}; at prefix {}: {:?}", known_at, known, k, cur);
                    w.viol("partial_field_changed_later", d, call, Place::End, data);
                    return;
                }
                if r.st == St::Partial {
                    if cur != known {
                        known_at = k;
                    }
                    known = cur;
                }
            }
            if r.st != St::Partial {
                if let St::Complete(n) = r.st {
                    if n > k {
                        w.viol("complete_n_beyond_prefix", format!("prefix {} -> Complete({})", k, n), call, Place::End, data);
                        return;
                    }
                }
                w.st.count(&format!("transition:Partial->{}", HIST_NAMES[r.st.hist_idx()]), 1);
                first_final = Some((k, r.clone()));
            }
        }
    }
    if first_final.is_none() {
        w.st.count("chains_all_partial", 1);
    }
    let cls = first_final.as_ref().map_or(1, |f| f.1.st.class());
    if w.st.room(cls) && w.st.counters.get("chains").copied().unwrap_or(0) % 7 == 1 {
        let note = match &first_final {
            Some((k, r)) => format!("Partial for every prefix shorter than {}, then {} for every longer prefix", k, r.st.show()),
            None => "Partial for every prefix".to_string(),
        };
        w.st.sample_c(cls, crate::report::J::obj().set("entry", crate::report::J::s(call.entry.name())).set("cfg_bits", crate::report::J::U(call.cfg as u64)).set("capacity", crate::report::J::U(call.cap as u64)).set("backend", crate::report::J::s(call.backend.name())).set("stream", crate::report::J::S(crate::report::esc(data))).set("chain_of_prefix_parses", crate::report::J::U(data.len() as u64 + 1)).set("observed", crate::report::J::S(note)));
    }
    // history form: one reused value fed the stream at random cut points
    if Kind::of(call.entry) == Kind::Req || Kind::of(call.entry) == Kind::Resp {
        let mut r = crate::rng::Rng::derive(w.seed, 0xc02, crate::rng::hash_bytes(3, data));
        let ncuts = r.range(1, 8);
        let mut cuts: Vec<usize> = (0..ncuts).map(|_| r.below(data.len() + 1)).collect();
        cuts.push(data.len());
        cuts.sort();
        cuts.dedup();
        let whole = w.ctx.place_in(1, data, Place::End);
        let steps: Vec<crate::history::Step> = cuts.iter().map(|&c| crate::history::Step { entry: call.entry, cfg: call.cfg, buf: &whole[..c], ucap: call.cap }).collect();
        let h = crate::history::run(&mut w.ctx, Kind::of(call.entry) == Kind::Req, call.cap, &steps, call.backend);
        w.st.count("chunking_histories", 1);
        w.st.count("chunking_history_calls", steps.len() as u64);
        let (fresh, _) = w.obs(call, data, Place::End);
        if let Some(last) = h.last() {
            // after an earlier Complete the headers slice has shrunk: only the plain README loop
            // (all earlier calls Partial) must equal the fresh parse of the whole stream
            let earlier_all_partial = h[..h.len() - 1].iter().all(|x| x.res.st == St::Partial);
            if earlier_all_partial && !last.res.same_outcome(&fresh.res) {
                let d = format!("cuts {:?}: reused value ends with {} but fresh parse of the whole gives {}", cuts, last.res.show(data), fresh.res.show(data));
                w.viol("chunked_delivery_changes_result", d, call, Place::End, data);
            }
        }
    }
}

// ------------------------------------------------------------------ C11

/// Completion suffixes: every suffix of a few canonical complete messages,
/// plus the same prefixed by UTF-8 continuation bytes.
pub fn completion_suffixes(kind: Kind) -> Vec<Vec<u8>> {
    let bases: Vec<&[u8]> = match kind {
        Kind::Req => vec![b"\nGET / HTTP/1.1\r\nA: b\r\n\r\n", b"G / HTTP/1.0\nA:b\n\n", b"\n\n", b"\r\n\r\n", b"x\r\n\r\n", b": b\r\n\r\n", b"POST / HTTP/1.1\r\n\r\n", b"ET / HTTP/1.1\r\n\r\n", b"OST / HTTP/1.1\r\n\r\n", b"ST / HTTP/1.1\r\n\r\n", b"T / HTTP/1.1\r\n\r\n"],
        Kind::Resp => vec![b"\nHTTP/1.1 200 OK\r\nA: b\r\n\r\n", b"HTTP/1.0 200\n\n", b"00 OK\r\n\r\n", b"0\r\n\r\n", b"\n\n", b"\r\n\r\n", b"x\r\n\r\n", b": b\r\n\r\n", b"\nx\r\n\r\n"],
        Kind::Hdr => vec![b"A: b\r\n\r\n", b"\n\n", b"\r\n\r\n", b"x\r\n\r\n", b": b\r\n\r\n", b"\nx\r\n\r\n"],
        Kind::Chunk => vec![b"0\r\n", b"\r\n", b"\n", b";\r\n"],
    };
    let mut v: Vec<Vec<u8>> = Vec::new();
    for b in bases {
        for k in 0..b.len() {
            v.push(b[k..].to_vec());
        }
    }
    if kind == Kind::Req {
        // finish a truncated UTF-8 sequence in the target first
        let tail = b" HTTP/1.1\r\n\r\n";
        for cont in [&[0x80u8][..], &[0x80, 0x80], &[0x80, 0x80, 0x80], &[0xA0, 0x80], &[0x90, 0x80, 0x80], &[0xBF], &[0x8F, 0xBF, 0xBF], &[0x9F, 0xBF]] {
            let mut s = cont.to_vec();
            s.extend_from_slice(tail);
            v.push(s);
        }
    }
    v.sort();
    v.dedup();
    // short ones first: cheap and most often sufficient
    v.sort_by_key(|s| s.len());
    v
}

fn unit_c11(w: &mut W, call: Call, data: &[u8]) {
    let kind = Kind::of(call.entry);
    let (o, _) = w.obs(call, data, Place::End);
    if w.check_panic(&o, call, Place::End, data) {
        return;
    }
    if o.res.st != St::Partial {
        w.st.count("not_partial_skipped", 1);
        return;
    }
    w.st.count("partials_examined", 1);
    let cfg = call.entry.effective_cfg(call.cfg);
    if kind == Kind::Req && orc::target_in_progress_bad_utf8(data, cfg & MSREQ != 0) {
        w.st.count("exempt_target_utf8", 1);
        return;
    }
    let sufs = completion_suffixes(kind);
    let mut ext = Vec::with_capacity(data.len() + 40);
    for (i, s) in sufs.iter().enumerate() {
        ext.clear();
        ext.extend_from_slice(data);
        ext.extend_from_slice(s);
        let c2 = Call { cap: ample_cap(&ext).max(call.cap), ..call };
        let (o2, _) = w.obs(c2, &ext, Place::End);
        if o2.res.st.is_complete() {
            w.st.count("completed", 1);
            w.st.max("max_suffixes_tried", (i + 1) as f64);
            w.st.count(&format!("suffix_used:{}", crate::report::esc(s)), 1);
            if w.st.want_sample() && w.st.evaluations % 499 == 9 {
                w.st.sample(sample_j(call, data, &o, &format!("Partial; completed by suffix {}", crate::report::esc(s))));
            }
            return;
        }
    }
    w.viol("partial_without_completion", format!("Partial, but none of {} completion suffixes yields Complete", sufs.len()), call, Place::End, data);
}

// ------------------------------------------------------------------ C15

fn unit_c15(w: &mut W, call: Call, data: &[u8]) {
    let kind = Kind::of(call.entry);
    let entry = kind.main_entry();
    let cap = call.cap;
    let base_call = Call { entry, cfg: 0, cap, ..call };
    let (d, b) = w.obs(base_call, data, Place::End);
    if w.check_panic(&d, base_call, Place::End, data) {
        return;
    }
    let b = b.to_vec();
    // representative result per class of configs that agree on this kind's own options
    let rel = kind.relevant_cfg();
    let mut class_rep: std::collections::HashMap<u8, Res> = std::collections::HashMap::new();
    if d.res.st.is_complete() {
        w.st.count("accepted_by_default", 1);
    }
    for cfg in 0..128u8 {
        let c = Call { entry, cfg, cap, ..call };
        let (o, _) = w.obs(c, &b, Place::End);
        if w.check_panic(&o, c, Place::End, data) {
            return;
        }
        // (b) other-kind options are irrelevant
        let cls = cfg & rel;
        match class_rep.get(&cls) {
            None => {
                class_rep.insert(cls, o.res.clone());
            }
            Some(rep) => {
                if !o.res.same_outcome(rep) {
                    let dd = format!("configs agreeing on own-kind bits {:#x} differ: {} vs {}", cls, rep.show(&b), o.res.show(&b));
                    w.viol("other_kind_option_changed_result", dd, c, Place::End, data);
                    return;
                }
            }
        }
        // (a) conservative extension
        if d.res.st.is_complete() {
            let mut want = d.res.clone();
            if kind == Kind::Resp && cfg & MSRESP != 0 {
                // the one documented exception: leading spaces stripped from the reason
                if let Some((off, len)) = want.reason.span() {
                    let lead = b[off..off + len].iter().take_while(|c| **c == b' ').count();
                    want.reason = Loc::from_span((off + lead, len - lead));
                }
            }
            if !o.res.same_outcome(&want) {
                let dd = format!("default: {} | cfg {:#x}: {}", d.res.show(&b), cfg, o.res.show(&b));
                w.viol("option_changed_result_of_default_accepted_input", dd, c, Place::End, data);
                return;
            }
        }
    }
    if w.st.want_sample() && w.st.evaluations % 641 == 0 {
        w.st.sample(sample_j(base_call, data, &d, "identical (mod. documented reason exception) under all 128 configs"));
    }
}

// ------------------------------------------------------------------ C16

fn unit_c16(w: &mut W, call: Call, data: &[u8]) {
    let kind = Kind::of(call.entry);
    let cfg = call.cfg;
    let cap = call.cap;
    match kind {
        Kind::Req | Kind::Resp => {
            let with_cfg: &[Entry] = if kind == Kind::Req { &[Entry::R2, Entry::R4] } else { &[Entry::S2, Entry::S4] };
            let plain: &[Entry] = if kind == Kind::Req { &[Entry::R1, Entry::R3] } else { &[Entry::S1] };
            let c0 = Call { entry: with_cfg[0], ..call };
            let (a, b) = w.obs(c0, data, Place::End);
            if w.check_panic(&a, c0, Place::End, data) {
                return;
            }
            let b = b.to_vec();
            let c1 = Call { entry: with_cfg[1], ..call };
            let (o, _) = w.obs(c1, &b, Place::End);
            w.check_panic(&o, c1, Place::End, data);
            if let Some(f) = orc::same_result("entry_points_disagree", &b, &a.res, &o.res, &format!("{} vs {}", with_cfg[0].name(), with_cfg[1].name())) {
                w.viol(f.rule, f.detail, c1, Place::End, data);
                return;
            }
            if a.res.st.is_complete() && a.hdr_len != o.hdr_len {
                w.viol("entry_points_disagree_headers_len", format!("{} vs {}", a.hdr_len, o.hdr_len), c1, Place::End, data);
                return;
            }
            // the config-less entry points equal the default config
            let d = if cfg == 0 {
                a.res.clone()
            } else {
                let cd = Call { entry: with_cfg[0], cfg: 0, ..call };
                w.obs(cd, &b, Place::End).0.res
            };
            for &e in plain {
                let c = Call { entry: e, cfg: 0, ..call };
                let (o, _) = w.obs(c, &b, Place::End);
                w.check_panic(&o, c, Place::End, data);
                if let Some(f) = orc::same_result("entry_points_disagree", &b, &d, &o.res, &format!("{}(default) vs {}", with_cfg[0].name(), e.name())) {
                    w.viol(f.rule, f.detail, c, Place::End, data);
                    return;
                }
            }
            let _ = cap;
            // the message parse vs parse_headers on the message's OWN header block (the reverse
            // direction of the Hdr branch below, with whatever start line the stream produced):
            // the block starts behind the first LF that follows the leading empty lines
            if let Some(off) = header_block_offset(&b) {
                let want_st = match d.st {
                    St::Complete(n) if n >= off => Some(St::Complete(n - off)),
                    St::Err(k) if matches!(k, ErrK::HeaderName | ErrK::HeaderValue | ErrK::TooManyHeaders) => Some(d.st),
                    _ => None,
                };
                if let Some(want_st) = want_st {
                    let ch = Call { entry: Entry::H, cfg: 0, ..call };
                    let block = b[off..].to_vec();
                    let (h, _) = w.obs(ch, &block, Place::End);
                    w.check_panic(&h, ch, Place::End, &block);
                    w.st.count("message_vs_own_header_block", 1);
                    let sh = off as u32;
                    let shift = |l: Loc| match l {
                        Loc::In(o_, l_) => Loc::In(o_ + sh, l_),
                        x => x.canon(),
                    };
                    let got_h: Vec<(Loc, Loc)> = h.res.headers.iter().map(|(n, v)| (shift(*n), shift(*v))).collect();
                    let want_h: Vec<(Loc, Loc)> = d.headers.iter().map(|(n, v)| (n.canon(), v.canon())).collect();
                    if h.res.st != want_st || (want_st.is_complete() && want_h != got_h) {
                        let dd = format!("{} (default config): {} | parse_headers on its header block (offset {}): {}", with_cfg[0].name(), d.show(&b), off, h.res.show(&block));
                        w.viol("parse_headers_disagrees_with_message_parse", dd, Call { entry: with_cfg[0], cfg: 0, ..call }, Place::End, data);
                        return;
                    }
                }
            }
            // the same on a REUSED value: after an identical first call (Partial, fields set,
            // array restored), the entry points must still agree on status and on every field
            if w.tier == Tier::Tiny && w.rot(data) % 4 != 0 {
                return; // Miri budget: the reused-value comparison on a quarter of the buffers
            }
            let is_req = kind == Kind::Req;
            let first: &[u8] = if is_req { b"POST /submit HTTP/1.0\r\nFirst:" } else { b"HTTP/1.0 404 Not Found\r\nFirst:" };
            let fb = w.ctx.place_in(2, first, Place::End);
            let pb = w.ctx.place_in(1, data, Place::End);
            let all: Vec<Entry> = kind.entries().to_vec();
            let mut base: Option<(Entry, Res, St)> = None;
            for &e in &all {
                let ecfg = if e.takes_cfg() { cfg } else { 0 };
                if !e.takes_cfg() && cfg != 0 {
                    continue;
                }
                let steps = [
                    crate::history::Step { entry: if is_req { Entry::R1 } else { Entry::S1 }, cfg: 0, buf: fb, ucap: call.cap },
                    crate::history::Step { entry: e, cfg: ecfg, buf: pb, ucap: call.cap },
                ];
                let h = crate::history::run(&mut w.ctx, is_req, call.cap.max(1), &steps, call.backend);
                w.st.evaluations += 2;
                w.st.count("reused_value_agreement_runs", 1);
                if h.len() < 2 || h.iter().any(|x| x.panicked) {
                    continue;
                }
                // capacity of the init path is max(cap,1) (first call needs no slot); compare only when equal
                if call.cap == 0 {
                    continue;
                }
                let r = h[1].res.canon();
                match &base {
                    None => base = Some((e, r, h[0].res.st)),
                    Some((e0, r0, _)) => {
                        let same = r0.st == r.st && r0.method == r.method && r0.path == r.path && r0.version == r.version && r0.code == r.code && r0.reason == r.reason && (!r.st.is_complete() || r0.headers == r.headers);
                        if !same {
                            let dd = format!("on a reused value (first call {}): {} gives {} but {} gives {}", crate::report::esc(first), e0.name(), r0.show(pb), e.name(), r.show(pb));
                            w.viol("entry_points_disagree_on_reused_value", dd, Call { entry: e, cfg: ecfg, ..call }, Place::End, data);
                            return;
                        }
                    }
                }
            }
        }
        Kind::Hdr => {
            // parse_headers(h) vs the header part of startline ++ h
            let ch = Call { entry: Entry::H, cfg: 0, ..call };
            let (h, hb) = w.obs(ch, data, Place::End);
            if w.check_panic(&h, ch, Place::End, data) {
                return;
            }
            let hb = hb.to_vec();
            let lines: [(&[u8], Entry); 6] = [
                (b"GET / HTTP/1.1\r\n", Entry::R2),
                (b"POST /x HTTP/1.0\n", Entry::R1),
                (b"\r\n\nGET /y HTTP/1.1\r\n", Entry::R4),
                (b"HTTP/1.1 200 OK\r\n", Entry::S2),
                (b"HTTP/1.0 404\n", Entry::S1),
                (b"\n\r\nHTTP/1.1 200 \r\n", Entry::S4),
            ];
            for (line, e) in lines.iter() {
                let mut full = line.to_vec();
                full.extend_from_slice(&hb);
                let c = Call { entry: *e, cfg: 0, ..call };
                let (o, _) = w.obs(c, &full, Place::End);
                w.check_panic(&o, c, Place::End, &full);
                let sh = line.len() as u32;
                // shift the parse_headers result by the start-line length
                let want_st = match h.res.st {
                    St::Complete(n) => St::Complete(n + line.len()),
                    x => x,
                };
                let shift = |l: Loc| match l {
                    Loc::In(o_, l_) => Loc::In(o_ + sh, l_),
                    x => x.canon(),
                };
                let want_h: Vec<(Loc, Loc)> = h.res.headers.iter().map(|(n, v)| (shift(*n), shift(*v))).collect();
                let got_h: Vec<(Loc, Loc)> = o.res.headers.iter().map(|(n, v)| (n.canon(), v.canon())).collect();
                if o.res.st != want_st || (want_st.is_complete() && want_h != got_h) {
                    let dd = format!("parse_headers: {} | {} after start line {}: {}", h.res.show(&hb), e.name(), crate::report::esc(line), o.res.show(&full));
                    w.viol("parse_headers_disagrees_with_message_parse", dd, c, Place::End, &full);
                    return;
                }
            }
        }
        Kind::Chunk => {}
    }
    if w.st.want_sample() && w.st.evaluations % 811 == 2 {
        w.st.sample(J_note(call, data, "all entry points agree"));
    }
}

/// Offset of the header block of a request/response buffer: behind the first LF that follows
/// the leading CR/LF bytes (neither a request line nor a status line can contain an LF).
fn header_block_offset(b: &[u8]) -> Option<usize> {
    let start = b.iter().position(|&c| c != b'\r' && c != b'\n')?;
    let lf = b[start..].iter().position(|&c| c == b'\n')?;
    Some(start + lf + 1)
}

#[allow(non_snake_case)]
fn J_note(call: Call, data: &[u8], note: &str) -> crate::report::J {
    crate::report::J::obj()
        .set("kind", crate::report::J::S(format!("{:?}", Kind::of(call.entry))))
        .set("cfg_bits", crate::report::J::U(call.cfg as u64))
        .set("capacity", crate::report::J::U(call.cap as u64))
        .set("input", crate::report::J::S(crate::report::esc(data)))
        .set("note", crate::report::J::s(note))
}

// ------------------------------------------------------------------ calls per buffer

/// Choose and run the calls made for one generated buffer.
pub fn unit_buffer(w: &mut W, kind: Kind, data: &[u8], tag: Tag) {
    w.tiny_calls = 0;
    let rot = w.rot(data);
    let k = lf_count(data);
    let ample = ample_cap(data);
    let rel = relevant_cfgs(kind);
    let bks = w.backends(tag, rot);
    let place = place_for(rot);
    let hplace = hplace_for(rot);
    let prop = w.prop.clone();
    let pick_cfg = |i: u64| -> u8 { rel[(i % rel.len() as u64) as usize] };
    match prop.as_str() {
        "C01" => {
            let caps = [0usize, 1, 2, k, k + 1, 64];
            for &e in kind.entries() {
                for (bi, &bk) in bks.iter().enumerate() {
                    let cfgs = [0u8, kind.relevant_cfg(), pick_cfg(rot >> 5)];
                    let tiny = w.tier == Tier::Tiny;
                    for (ci, &cfg) in cfgs.iter().enumerate() {
                        if !e.takes_cfg() && ci > 0 {
                            continue;
                        }
                        if tiny && e.takes_cfg() && ci != (rot % 3) as usize {
                            continue;
                        }
                        for j in 0..(if tiny { 1 } else { 2 }) {
                            let cap = caps[((rot >> 11) as usize + j * 3 + ci + bi) % caps.len()];
                            let call = Call { entry: e, cfg, cap, hplace, backend: bk };
                            let pl = if j == 0 { Place::End } else { place };
                            unit_call(w, call, data, pl);
                        }
                    }
                }
            }
        }
        "C02" => {
            if data.len() > 300 || (w.tier == Tier::Tiny && (data.len() > 48 || rot % 2 == 0)) {
                // under Miri a chain of len+1 monitored calls costs ~0.1 s per call
                return;
            }
            let es = kind.entries();
            let e = es[(rot % es.len() as u64) as usize];
            let caps = [0usize, 1, k, k + 1, 64];
            for &bk in &bks {
                let cfgs: Vec<u8> = if tag == Tag::G4 || tag == Tag::G2 { vec![pick_cfg(rot >> 7)] } else { vec![0, pick_cfg(rot >> 7)] };
                for cfg in cfgs {
                    let cap = caps[((rot >> 13) % 5) as usize];
                    // the config-taking entry for non-default configs
                    let entry = if cfg != 0 { kind.main_entry() } else { e };
                    unit_call(w, Call { entry, cfg, cap, hplace, backend: bk }, data, Place::End);
                }
            }
        }
        "C03" | "C04" | "C05" => {
            let all_cfgs = tag == Tag::G1 || tag == Tag::G8 || (tag == Tag::G2 && w.tier == Tier::Thorough);
            let cfgs: Vec<u8> = if all_cfgs { rel.clone() } else { vec![0, pick_cfg(rot >> 5), pick_cfg(rot >> 9)] };
            let es = kind.entries();
            for &bk in &bks {
                for (i, &cfg) in cfgs.iter().enumerate() {
                    let e = if cfg != 0 { if (rot >> i) & 1 == 0 || kind.entries().len() < 3 { kind.main_entry() } else { *es.last().unwrap() } } else { es[((rot >> 17) as usize + i) % es.len()] };
                    let cap = if (rot >> (20 + i)) % 4 == 0 { [0, 1, 2, k][((rot >> 24) % 4) as usize] } else { ample };
                    unit_call(w, Call { entry: e, cfg, cap, hplace, backend: bk }, data, place);
                }
            }
        }
        "C06" | "C07" => {
            let ms = if prop == "C06" { MSREQ } else { MSRESP };
            for &bk in &bks {
                for base in [0u8, ms] {
                    let other = (rot >> 9) as u8 & 127 & !ms;
                    for cfg in [base, base | other] {
                        unit_call(w, Call { entry: kind.main_entry(), cfg, cap: ample, hplace, backend: bk }, data, place);
                        if cfg == base | other && other == 0 {
                            break;
                        }
                    }
                }
            }
        }
        "C08" => {
            for &bk in &bks {
                let es = kind.entries();
                let e = es[(rot % es.len() as u64) as usize];
                unit_call(w, Call { entry: e, cfg: 0, cap: ample, hplace, backend: bk }, data, place);
            }
        }
        "C09" => {
            unit_call(w, Call::new(Entry::K, 0, 0), data, place);
        }
        "C10" => {
            let caps = [ample, 0, 1, 2, k];
            for &bk in &bks {
                let cfgs: Vec<u8> = if tag == Tag::G1 || tag == Tag::G8 { rel.clone() } else { vec![0, pick_cfg(rot >> 5)] };
                for (i, &cfg) in cfgs.iter().enumerate() {
                    let cap = if i % 2 == 0 { ample } else { caps[((rot >> 12) as usize + i) % caps.len()] };
                    unit_call(w, Call { entry: kind.main_entry(), cfg, cap, hplace, backend: bk }, data, place);
                }
            }
        }
        "C11" => {
            let cfgs: Vec<u8> = if tag == Tag::G1 || tag == Tag::G8 { rel.clone() } else { vec![0, pick_cfg(rot >> 5)] };
            for cfg in cfgs {
                unit_call(w, Call { entry: kind.main_entry(), cfg, cap: ample.max(64), hplace, backend: bks[0] }, data, Place::End);
            }
        }
        "C14" => {
            // all combinations of this kind's header options (+ the multi-space bit at random)
            for &bk in &bks {
                for &cfg in &rel {
                    let ms = kind.relevant_cfg() & (MSREQ | MSRESP);
                    if cfg & ms != 0 && (rot >> 3) % 4 != 0 {
                        continue;
                    }
                    unit_call(w, Call { entry: kind.main_entry(), cfg, cap: ample, hplace, backend: bk }, data, place);
                }
            }
        }
        "C15" => {
            let cap = if rot % 5 == 0 { [0, 1, 2, k][((rot >> 4) % 4) as usize] } else { ample };
            unit_call(w, Call { entry: kind.main_entry(), cfg: 0, cap, hplace, backend: bks[0] }, data, Place::End);
        }
        "C16" => {
            let caps = [ample, 0, 1, k, k + 1];
            let cfgs: Vec<u8> = if kind == Kind::Hdr { vec![0] } else { vec![0, pick_cfg(rot >> 5)] };
            for (i, cfg) in cfgs.into_iter().enumerate() {
                let cap = caps[((rot >> 10) as usize + i) % caps.len()];
                unit_call(w, Call { entry: kind.main_entry(), cfg, cap, hplace, backend: bks[0] }, data, Place::End);
            }
        }
        "C17" => {
            let es = kind.entries();
            let maxcap = (k + 2).min(if w.tier >= Tier::Thorough { 80 } else if w.tier == Tier::Tiny { 3 } else { 12 });
            for cap in 0..=maxcap {
                let e = es[((rot >> 3) as usize + cap) % es.len()];
                let cfg = if e.takes_cfg() { pick_cfg((rot >> 7) + cap as u64) } else { 0 };
                unit_call(w, Call { entry: e, cfg, cap, hplace, backend: bks[0] }, data, Place::End);
            }
        }
        "C19" => {
            for &e in kind.entries() {
                let cfgs: Vec<u8> = if !e.takes_cfg() { vec![0] } else if tag == Tag::G1 { rel.clone() } else { vec![0, pick_cfg(rot >> 5)] };
                for (i, cfg) in cfgs.into_iter().enumerate() {
                    let cap = [ample, 0, 1, k][((rot >> 8) as usize + i) % 4];
                    unit_call(w, Call { entry: e, cfg, cap, hplace, backend: bks[0] }, data, place);
                }
            }
        }
        _ => panic!("unit_buffer: unknown property {}", prop),
    }
}
