//! Properties whose unit is not a single call: C12 (scanners), C13 (digests),
//! C18 (histories), C20 (work counters).

use crate::arena::Place;
use crate::gen::{self, Kind};
use crate::history::{self, Step};
use crate::obs::{observe, Call};
use crate::props::*;
use crate::report::{esc, Violation, J};
use crate::rng::{hash_bytes, mix, Rng};
use crate::scan::{self, Class, Sc, ALL_SC};
use crate::types::*;
use httparse::_verif as hv;

pub fn run(w: &mut W) {
    match w.prop.as_str() {
        "C12" => run_c12(w),
        "C13" => run_c13(w),
        "C18" => run_c18(w),
        "C20" => run_c20(w),
        p => panic!("special::run: {}", p),
    }
}

pub fn replay(kind: &str, a: &[String]) -> i32 {
    match kind {
        "scan" => {
            // scan <sc idx> <place> <hex>
            let sc = ALL_SC[a[0].parse::<usize>().unwrap()];
            let place = Place::from_code(a[1].parse().unwrap());
            let data = unhex(&a[2]);
            let mut w = W::new("C12", Tier::Quick, 0, 0, 1);
            let bad = scan_case(&mut w, sc, &data, place);
            println!("replay C12 scanner={} input={}", sc.name(), esc(&data));
            for v in &w.st.violations {
                println!("  rule={} {}", v.rule, v.detail);
            }
            if bad {
                println!("REPRODUCED");
                1
            } else {
                println!("not reproduced");
                0
            }
        }
        "hist" => {
            // hist <is_req> <cap> <backend> <n> {entry cfg ucap hex}*n   (last = probe)
            let is_req = a[0] == "1";
            let cap: usize = a[1].parse().unwrap();
            let backend = Backend::from_id(a[2].parse().unwrap());
            let n: usize = a[3].parse().unwrap();
            let mut steps = Vec::new();
            for i in 0..n {
                let b = 4 + i * 4;
                steps.push((Entry::from_name(&a[b]).unwrap(), a[b + 1].parse::<u8>().unwrap(), a[b + 2].parse::<usize>().unwrap(), unhex(&a[b + 3])));
            }
            let mut w = W::new("C18", Tier::Quick, 0, 0, 1);
            let bad = history_case(&mut w, is_req, cap, backend, &steps);
            for v in &w.st.violations {
                println!("  rule={} {}", v.rule, v.detail);
            }
            if bad {
                println!("REPRODUCED");
                1
            } else {
                println!("not reproduced");
                0
            }
        }
        "scale" => {
            // scale <family> <n> <backend>
            let fam: usize = a[0].parse().unwrap();
            let n: usize = a[1].parse().unwrap();
            let backend = Backend::from_id(a[2].parse().unwrap());
            let mut w = W::new("C20", Tier::Quick, 0, 0, 1);
            let s = gen::g7(fam, n);
            let bad = scale_case(&mut w, s.name, Call { entry: s.entry, cfg: s.cfg, cap: s.cap, hplace: Place::End, backend }, &s.buf, Some((fam, n)));
            for v in &w.st.violations {
                println!("  rule={} {}", v.rule, v.detail);
            }
            if bad {
                println!("REPRODUCED");
                1
            } else {
                println!("not reproduced");
                0
            }
        }
        "c13" => {
            // c13 <entry> <cfg> <cap> <hex>: print the digest of one corpus case under this variant
            let entry = Entry::from_name(&a[0]).unwrap();
            let cfg: u8 = a[1].parse().unwrap();
            let cap: usize = a[2].parse().unwrap();
            let data = unhex(&a[3]);
            let backend = match std::env::var("VERIF_BACKEND").as_deref() {
                Ok("avx2") => Backend::Avx2,
                Ok("sse42") => Backend::Sse42,
                Ok("scalar") => Backend::Scalar,
                _ => Backend::AsIs,
            };
            let mut w = W::new("C13", Tier::Quick, 0, 0, 1);
            let (o, b) = w.obs(Call { entry, cfg, cap, hplace: Place::End, backend }, &data, Place::End);
            println!("DIGEST {:016x} {}", o.res.canon().digest(), o.res.show(b));
            0
        }
        _ => {
            eprintln!("unknown replay kind {}", kind);
            2
        }
    }
}

// ------------------------------------------------------------------ C12

fn class_filler(c: Class, i: usize) -> u8 {
    match c {
        Class::Target => [b'a', b'/', b'~', b'!', 0x80, 0xFF, b'z'][i % 7],
        Class::Value => [b'v', b' ', b'\t', b'~', 0x80, 0xFF, b'!'][i % 7],
        Class::Name => [b'A', b'b', b'-', b'9', b'_', b'~', b'z'][i % 7],
    }
}

fn expected_bit(sc: Sc) -> u64 {
    match sc {
        Sc::SwarUri => hv::B_SWAR_URI,
        Sc::SwarValue => hv::B_SWAR_VALUE,
        Sc::SwarName | Sc::DispName => hv::B_SWAR_NAME,
        Sc::Sse42Uri | Sc::DispUri(2) => hv::B_SSE42_URI,
        Sc::Sse42Value | Sc::DispValue(2) => hv::B_SSE42_VALUE,
        Sc::Avx2Uri | Sc::DispUri(1) => hv::B_AVX2_URI,
        Sc::Avx2Value | Sc::DispValue(1) => hv::B_AVX2_VALUE,
        Sc::DispUri(3) => hv::B_SWAR_URI,
        Sc::DispValue(3) => hv::B_SWAR_VALUE,
        Sc::NeonUri => hv::B_NEON_URI,
        Sc::NeonValue => hv::B_NEON_VALUE,
        Sc::NeonName => hv::B_NEON_NAME,
        _ => 0,
    }
}

/// One scanner call; returns true on violation.
fn scan_case(w: &mut W, sc: Sc, data: &[u8], place: Place) -> bool {
    if w.journal.is_some() {
        w.journal(&["scan".to_string(), sc.idx().to_string(), place.code().to_string(), hex(data)]);
    }
    let buf = w.ctx.place(data, place);
    hv::reset();
    let got = match scan::run(sc, buf) {
        Some(p) => p,
        None => {
            w.st.count(&format!("unavailable:{}", sc.name()), 1);
            return false;
        }
    };
    let bits = hv::snapshot().backends;
    w.st.evaluations += 1;
    w.st.backends |= bits;
    w.st.aligns |= 1 << (buf.as_ptr() as usize % 32);
    w.st.places |= match place {
        Place::End => 1,
        Place::Start => 2,
        Place::Mid(_) => 4,
        Place::Cross(_) => 8,
    };
    w.st.count(&format!("calls:{}", sc.name()), 1);
    let eb = expected_bit(sc);
    if eb != 0 && bits & eb == 0 {
        // which implementation the parser's own dispatch picks is not part of any statement:
        // only the direct per-backend wrappers must enter the scanner they name
        if matches!(sc, Sc::DispUri(_) | Sc::DispValue(_) | Sc::DispName) {
            w.st.count(&format!("dispatch_used_other_implementation:{}", sc.name()), 1);
        } else {
            w.st.count(&format!("backend_bit_missing:{}", sc.name()), 1);
        }
    }
    let want = scan::expected(sc.class(), buf);
    if w.st.samples.len() < 8 && w.st.evaluations % 100003 == 7 {
        w.st.sample(J::obj().set("scanner", J::S(sc.name())).set("class", J::S(format!("{:?}", sc.class()))).set("len", J::U(buf.len() as u64)).set("addr_mod_32", J::U(buf.as_ptr() as usize as u64 % 32)).set("placement", J::S(format!("{:?}", place))).set("input", J::S(esc(buf))).set("stopped_at", J::U(got as u64)).set("first_out_of_class", J::U(want as u64)));
    }
    if got != want {
        let v = Violation {
            property: "C12".into(),
            rule: "scanner_stop_offset_wrong".into(),
            detail: format!("scanner={} class={:?} len={} stopped at {} but first out-of-class byte is at {} input={}", sc.name(), sc.class(), buf.len(), got, want, esc(buf)),
            replay: vec!["scan".into(), sc.idx().to_string(), place.code().to_string(), hex(data)],
            signature: None,
        };
        w.st.violation(v);
        return true;
    }
    false
}

fn run_c12(w: &mut W) {
    // the classes are exactly ...: the crate's predicates vs the statement, all 256 bytes
    if w.shard == 0 {
        for b in 0..=255u8 {
            let checks = [
                ("is_uri_token", hv::is_uri_token(b), scan::in_class(Class::Target, b)),
                ("is_header_value_token", hv::is_header_value_token(b), scan::in_class(Class::Value, b)),
                ("is_header_name_token", hv::is_header_name_token(b), scan::in_class(Class::Name, b)),
                ("is_method_token", hv::is_method_token(b), scan::in_class(Class::Name, b)),
            ];
            for (nm, got, want) in checks {
                w.st.evaluations += 1;
                w.st.count("predicate_table_checks", 1);
                if got != want {
                    w.st.violation(Violation {
                        property: "C12".into(),
                        rule: "class_predicate_wrong".into(),
                        detail: format!("{}({:#04x}) = {} but the class says {}", nm, b, got, want),
                        replay: vec!["scan".into(), "0".into(), "1000".into(), hex(&[b])],
                        signature: None,
                    });
                }
            }
        }
    }
    if !crate::neon_src::NEON_SOURCE_OK {
        w.st.notes.push(format!("NEON source not usable: {}", crate::neon_src::NEON_REWRITE_NOTE));
    }
    let maxl = w.by_tier((41usize, 70, 100, 100));
    let tiny = w.tier == Tier::Tiny;
    let values: Vec<u8> = if tiny { vec![0x7F, 0x1F] } else if w.tier <= Tier::Small { gen::BOUNDARY.to_vec() } else { gen::all_bytes() };
    let mut idx: u64 = 0;
    let (shard, n) = (w.shard, w.nshards);
    for &sc in ALL_SC.iter() {
        let c = sc.class();
        let mut buf: Vec<u8> = Vec::new();
        for l in 0..=maxl {
            buf.clear();
            buf.extend((0..l).map(|i| class_filler(c, i + l)));
            // no offending byte: End, Start and all 32 alignments
            for pl in 0..34u32 {
                if tiny && !(pl == (l % 32) as u32 || pl == 32) {
                    continue;
                }
                idx += 1;
                if idx % n != shard {
                    continue;
                }
                let place = match pl {
                    32 => Place::End,
                    33 => Place::Start,
                    a => Place::Mid(a as u8),
                };
                w.st.distinct_case(mix(hash_bytes(sc.idx() as u64, &buf), pl as u64));
                scan_case(w, sc, &buf, place);
            }
            // single offending position x values
            for q in 0..l {
                if tiny && !(q == 0 || q == l / 2 || q + 1 == l || q % 8 == 7) {
                    continue;
                }
                let keep = buf[q];
                for &v in &values {
                    idx += 1;
                    if idx % n != shard {
                        continue;
                    }
                    buf[q] = v;
                    let place = if (idx / n) % 5 == 0 { Place::Mid((idx / n / 5 % 32) as u8) } else { Place::End };
                    w.st.distinct_case(hash_bytes(sc.idx() as u64, &buf));
                    scan_case(w, sc, &buf, place);
                }
                buf[q] = keep;
            }
            // pairs of offending positions (first-of-several selection)
            if w.tier >= Tier::Quick || (l <= 34 && !tiny) {
                let bad: [u8; 4] = [0x00, 0x7F, 0x0A, 0x1F];
                for q1 in 0..l {
                    for q2 in (q1 + 1)..l {
                        idx += 1;
                        if idx % n != shard {
                            continue;
                        }
                        let (k1, k2) = (buf[q1], buf[q2]);
                        buf[q1] = bad[(q1 + q2) % 4];
                        buf[q2] = bad[(q1 * 3 + q2) % 4];
                        w.st.distinct_case(hash_bytes(sc.idx() as u64 + 50, &buf));
                        scan_case(w, sc, &buf, Place::End);
                        buf[q1] = k1;
                        buf[q2] = k2;
                    }
                }
            }
        }
        // coarser: long buffers, offending byte near block boundaries and near the end
        if w.tier >= Tier::Small {
            // three filler styles: the mixed class filler (contains HTAB / obs-text where legal), plain
            // letters, and obs-text-rich without any byte below 0x20 (unrolled "whole chunk is clean"
            // fast paths bail out on the first kind and are only entered with the other two)
            for style in 0..3usize {
                for &l in &[101usize, 127, 128, 129, 160, 255, 256, 257, 300, 4056, 4095, 4096, 4097, 4136] {
                    let base: Vec<u8> = (0..l)
                        .map(|i| match (style, c) {
                            (0, _) => class_filler(c, i),
                            (1, _) => b'a' + (i % 26) as u8,
                            (_, Class::Name) => [b'-', b'Z', b'x'][i % 3],
                            (_, _) => [0xFFu8, b'~', 0xA0][i % 3],
                        })
                        .collect();
                    let mut qs: Vec<usize> = if l <= 300 && w.tier >= Tier::Quick {
                        (0..l).collect()
                    } else {
                        vec![0, 1, 7, 8, 15, 16, 31, 32, 33, 63, 64, 65, 95, 96, 97, 127, 128, 129, l / 2, l - 33, l - 32, l - 17, l - 16, l - 9, l - 8, l - 2, l - 1]
                    };
                    qs.retain(|q| *q < l);
                    qs.dedup();
                    for q in qs {
                        for &v in &gen::BOUNDARY {
                            idx += 1;
                            if idx % n != shard {
                                continue;
                            }
                            let mut b = base.clone();
                            b[q] = v;
                            w.st.distinct_case(hash_bytes(sc.idx() as u64, &b));
                            let place = match idx / n % 4 {
                                0 => Place::Start,
                                // a page boundary 0..32 bytes in front of the special byte
                                1 => Place::Cross((q.saturating_sub((idx % 33) as usize)).max(1) as u16),
                                _ => Place::End,
                            };
                            scan_case(w, sc, &b, place);
                        }
                    }
                }
            }
        }
    }
    // lane partners: two special bytes at a distance of 8/16/32/64/96 (the same lane of another
    // word / vector of an unrolled step); folds with min/max/or across vectors can let one hide the other
    if w.tier >= Tier::Small {
        let special: Vec<u8> = vec![0x00, 0x09, 0x0A, 0x0D, 0x1F, 0x20, 0x21, 0x2C, 0x3A, 0x7E, 0x7F, 0x80, 0xA0, 0xFF, b'a', b'-'];
        let dists: &[usize] = &[8, 16, 32, 64, 96];
        let lens: &[usize] = if w.tier >= Tier::Quick { &[136, 200] } else { &[136] };
        let mut lidx: u64 = 0;
        for &sc in ALL_SC.iter() {
            if matches!(sc, Sc::DispUri(0) | Sc::DispValue(0)) {
                continue;
            }
            let c = sc.class();
            for &l in lens {
                for style in 1..3usize {
                    let base: Vec<u8> = (0..l)
                        .map(|i| match (style, c) {
                            (1, _) => b'a' + (i % 26) as u8,
                            (_, Class::Name) => [b'-', b'Z', b'x'][i % 3],
                            (_, _) => [0xFFu8, b'~', 0xA0][i % 3],
                        })
                        .collect();
                    for &d in dists {
                        let qstep = if w.tier == Tier::Thorough { 1 } else { 3 };
                        let mut q = 0;
                        while q + d < l {
                            lidx += 1;
                            if lidx % n == shard {
                                let mut b = base.clone();
                                for &b1 in &special {
                                    for &b2 in &special {
                                        b[q] = b1;
                                        b[q + d] = b2;
                                        hv::reset();
                                        if let Some(got) = scan::run(sc, &b) {
                                            w.st.evaluations += 1;
                                            let want = scan::expected(c, &b);
                                            if got != want {
                                                w.st.violation(Violation {
                                                    property: "C12".into(),
                                                    rule: "scanner_stop_offset_wrong".into(),
                                                    detail: format!("scanner={} (lane-partner sweep, distance {}) stopped at {} want {} input={}", sc.name(), d, got, want, esc(&b)),
                                                    replay: vec!["scan".into(), sc.idx().to_string(), "1000".into(), hex(&b)],
                                                    signature: None,
                                                });
                                            }
                                        }
                                    }
                                }
                                w.st.count("lane_partner_sweeps_256", 1);
                                w.st.distinct_case(mix(hash_bytes(sc.idx() as u64 + 1700 + d as u64, &base), q as u64));
                            }
                            q += qstep;
                        }
                    }
                }
            }
        }
    }
    // adjacent byte PAIRS: all 65536 (b1, b2) at neighbouring positions inside otherwise in-class
    // buffers with three filler styles (carry / borrow / fold slips need a value relation between
    // two bytes, e.g. 0xFF 0x1F or '-' ',')
    if w.tier >= Tier::Small {
        let lens: &[usize] = if w.tier >= Tier::Quick { &[16, 40] } else { &[16] };
        let poss: &[usize] = if w.tier == Tier::Thorough { &[0, 1, 2, 5, 6, 7, 8, 9, 14, 15, 16, 17, 23, 30, 31, 32, 33, 38] } else if w.tier == Tier::Quick { &[0, 1, 6, 7, 8, 14, 15, 16, 30, 31, 32] } else { &[0, 7, 15] };
        let mut pidx: u64 = 0;
        for &sc in ALL_SC.iter() {
            if matches!(sc, Sc::DispUri(0) | Sc::DispValue(0)) {
                continue;
            }
            let c = sc.class();
            for &l in lens {
                for style in 0..3usize {
                    let base: Vec<u8> = (0..l)
                        .map(|i| match (style, c) {
                            (0, _) => class_filler(c, i),
                            (1, _) => b'a' + (i % 26) as u8,
                            (_, Class::Name) => [b'-', b'Z', b'x'][i % 3],
                            (_, _) => [0xFFu8, b'~', 0xA0][i % 3],
                        })
                        .collect();
                    for &q in poss {
                        if q + 1 >= l {
                            continue;
                        }
                        pidx += 1;
                        if pidx % n != shard {
                            continue;
                        }
                        let mut b = base.clone();
                        for b1 in 0..=255u8 {
                            b[q] = b1;
                            for b2 in 0..=255u8 {
                                b[q + 1] = b2;
                                hv::reset();
                                if let Some(got) = scan::run(sc, &b) {
                                    w.st.evaluations += 1;
                                    let want = scan::expected(c, &b);
                                    if got != want {
                                        w.st.violation(Violation {
                                            property: "C12".into(),
                                            rule: "scanner_stop_offset_wrong".into(),
                                            detail: format!("scanner={} (adjacent-pair sweep) stopped at {} want {} input={}", sc.name(), got, want, esc(&b)),
                                            replay: vec!["scan".into(), sc.idx().to_string(), "1000".into(), hex(&b)],
                                            signature: None,
                                        });
                                    }
                                } else {
                                    break;
                                }
                            }
                        }
                        w.st.count("adjacent_pair_sweeps_65536", 1);
                        w.st.distinct_case(mix(hash_bytes(sc.idx() as u64 + 900, &base), q as u64));
                    }
                }
            }
        }
    }
    // word-at-a-time block function: all 8-byte strings over a boundary alphabet
    let alpha: Vec<u8> = match w.tier {
        Tier::Tiny => vec![0x7F, b'a'],
        Tier::Small => vec![0x00, 0x09, 0x20, 0x21, 0x7F, 0x80, b'a'],
        Tier::Quick => vec![0x00, 0x09, 0x1F, 0x20, 0x21, 0x7E, 0x7F, 0x80, 0xFF],
        Tier::Thorough => vec![0x00, 0x08, 0x09, 0x0A, 0x1F, 0x20, 0x21, 0x7E, 0x7F, 0x80, 0xFF, b'a'],
    };
    let total = (alpha.len() as u64).pow(8);
    let per = total / n + 1;
    let (lo, hi) = (shard * per, ((shard + 1) * per).min(total));
    let scs: Vec<Sc> = [Sc::SwarUri, Sc::SwarValue, Sc::SwarName, Sc::NeonUri, Sc::NeonValue, Sc::NeonName].to_vec();
    let mut word = [0u8; 8];
    let mut dbl = [0u8; 16];
    for i in lo..hi {
        let mut x = i;
        for k in 0..8 {
            word[k] = alpha[(x % alpha.len() as u64) as usize];
            x /= alpha.len() as u64;
        }
        dbl[..8].copy_from_slice(&word);
        dbl[8..].copy_from_slice(&word);
        w.st.distinct_case(hash_bytes(77, &word));
        for &sc in &scs {
            // fast path without arena placement: these are functional block checks
            hv::reset();
            let data: &[u8] = if sc.is_neon() { &dbl } else { &word };
            if let Some(got) = scan::run(sc, data) {
                w.st.evaluations += 1;
                let want = scan::expected(sc.class(), data);
                if got != want {
                    w.st.violation(Violation {
                        property: "C12".into(),
                        rule: "scanner_stop_offset_wrong".into(),
                        detail: format!("scanner={} (block enumeration) stopped at {} want {} input={}", sc.name(), got, want, esc(data)),
                        replay: vec!["scan".into(), sc.idx().to_string(), "1000".into(), hex(data)],
                        signature: None,
                    });
                }
            }
        }
    }
    w.st.count("block_words_enumerated", hi - lo);
    w.st.count("block_alphabet_size", 0);
    w.st.notes.push(format!("block alphabet {:02x?}^8 = {} words (shard {}..{})", alpha, total, lo, hi));
}

// ------------------------------------------------------------------ C13 (digest corpus)

/// Deterministic corpus: each case has its own entry, config and capacity.
fn c13_corpus(w: &W, f: &mut dyn FnMut(Kind, &[u8])) {
    let mut plan = Plan::empty();
    plan.g1 = true;
    plan.g8 = true;
    plan.g2_small = vec![0x00, 0x09, 0x0D, 0x20, 0x7F, 0x80];
    plan.g3 = vec![(w.by_tier((20usize, 34, 70, 100)), vec![0x09, 0x7F, 0x80, 0x20], vec![0]), (w.by_tier((40usize, 70, 200, 420)), vec![0x7F, 0x80], vec![0])];
    plan.g4_hdr = w.by_tier((1, 2, 3, 4));
    plan.g4_line = w.by_tier((1, 1, 2, 3));
    plan.g5 = w.by_tier((20, 300, 20000, 400000));
    plan.g6 = w.by_tier((20, 300, 20000, 400000));
    if w.tier == Tier::Thorough {
        plan.g2_small = gen::BOUNDARY.to_vec();
    }
    // the targeted families too (counter wrap points, UTF-8 boundaries, > 64 KiB inputs, whitespace
    // prefixes, ...): a defect that exists in one build variant only needs them just as much
    plan.g9 = Some(w.by_tier((0usize, 0, 1, 2)));
    // NB: the corpus must not depend on VERIF_SEED-independent state only: seed is part of it,
    // and every variant is run with the same seed by the driver.
    for kind in gen::ALL_KINDS {
        stream(kind, &plan, w.seed, &mut |b, _| f(kind, b));
    }
}

fn run_c13(w: &mut W) {
    let backend = match std::env::var("VERIF_BACKEND").as_deref() {
        Ok("avx2") => Backend::Avx2,
        Ok("sse42") => Backend::Sse42,
        Ok("scalar") => Backend::Scalar,
        _ => Backend::AsIs,
    };
    let dump: Option<u64> = std::env::var("VERIF_C13_DUMP").ok().and_then(|s| s.parse().ok());
    if backend != Backend::AsIs && !w.can_force {
        w.st.notes.push("requested backend cannot be forced in this build".into());
    }
    let mut digests: Vec<u64> = Vec::new();
    let mut dumped: Vec<J> = Vec::new();
    let mut cur: u64 = 0;
    let mut in_block = 0u32;
    let mut case_idx: u64 = 0;
    // collect this shard's cases first (borrow of w inside the closure)
    let (shard, n) = (w.shard, w.nshards);
    let mut cases: Vec<(Kind, Vec<u8>)> = Vec::new();
    c13_corpus(w, &mut |kind, b| {
        if hash_bytes(0x51ed, b) % n == shard {
            cases.push((kind, b.to_vec()));
        }
    });
    for (kind, b) in cases {
        let rot = hash_bytes(0xc13, &b);
        let es = kind.entries();
        let entry = es[(rot % es.len() as u64) as usize];
        let rel = relevant_cfgs(kind);
        let cfg = if entry.takes_cfg() { rel[((rot >> 8) % rel.len() as u64) as usize] } else { 0 };
        let k = lf_count(&b);
        let cap = [ample_cap(&b), 0, 1, 2, k][((rot >> 16) % 5) as usize];
        let call = Call { entry, cfg, cap, hplace: Place::End, backend };
        if !b.is_empty() {
            w.st.distinct_case(hash_bytes(13, &b));
        }
        // 4 alignments / placements, plus page-crossing placements (a page boundary inside the buffer)
        let mut places = vec![Place::Mid(0), Place::Mid(1), Place::Mid(((rot >> 24) % 32) as u8), Place::End];
        if b.len() >= 2 {
            places.push(Place::Cross(1 + ((rot >> 32) % (b.len() as u64 - 1)) as u16));
            if b.len() >= 48 {
                places.push(Place::Cross(1 + ((rot >> 40) % (b.len() as u64 - 1)) as u16));
                places.push(Place::Cross(1 + ((rot >> 48) % (b.len() as u64 - 1)) as u16));
            }
        }
        let mut first: Option<Res> = None;
        for pl in places {
            let (o, _) = w.obs(call, &b, pl);
            if let Some(m) = &o.panic {
                let m = m.clone();
                w.viol("call_panicked", m, call, pl, &b);
            }
            match &first {
                None => first = Some(o.res.clone()),
                Some(f0) => {
                    if f0.canon() != o.res.canon() {
                        let d = format!("alignment-dependent result: {} vs {} at {:?}", f0.show(&b), o.res.show(&b), pl);
                        w.viol("result_depends_on_alignment", d, call, pl, &b);
                    }
                }
            }
        }
        let d = first.as_ref().unwrap().canon().digest();
        // on non-Complete outcomes only the status is part of the statement
        let d = if first.as_ref().unwrap().st.is_complete() { d } else { mix(99, first.as_ref().unwrap().st.hist_idx() as u64) };
        if dump == Some(digests.len() as u64) {
            dumped.push(
                J::obj()
                    .set("case", J::U(case_idx))
                    .set("digest", J::S(format!("{:016x}", d)))
                    .set("entry", J::s(entry.name()))
                    .set("cfg", J::U(cfg as u64))
                    .set("cap", J::U(cap as u64))
                    .set("hex", J::S(hex(&b)))
                    .set("result", J::S(first.as_ref().unwrap().show(&b))),
            );
        }
        cur = mix(cur, d);
        in_block += 1;
        case_idx += 1;
        if in_block == 256 {
            digests.push(cur);
            cur = 0;
            in_block = 0;
        }
        if w.st.want_sample() && case_idx % 3001 == 1 {
            w.st.sample(J::obj().set("entry", J::s(entry.name())).set("cfg_bits", J::U(cfg as u64)).set("capacity", J::U(cap as u64)).set("input", J::S(esc(&b))).set("result", J::S(first.as_ref().unwrap().show(&b))));
        }
    }
    digests.push(cur);
    w.st.count("corpus_cases", case_idx);
    w.st.count("digest_blocks", digests.len() as u64);
    w.st.notes.push(format!("DIGESTS:{}", digests.iter().map(|d| format!("{:016x}", d)).collect::<Vec<_>>().join(",")));
    if !dumped.is_empty() {
        w.st.notes.push(format!("DUMP:{}", J::A(dumped).to_string()));
    }
}

// ------------------------------------------------------------------ C18

type HStep = (Entry, u8, usize, Vec<u8>);

/// Run a history + probe on one value and the probe alone on a fresh value.
fn history_case(w: &mut W, is_req: bool, cap: usize, backend: Backend, steps: &[HStep]) -> bool {
    assert!(steps.len() <= 6);
    let mut placed: Vec<Step> = Vec::new();
    for (i, (e, cfg, ucap, data)) in steps.iter().enumerate() {
        let buf = w.ctx.place_in(i, data, Place::End);
        placed.push(Step { entry: *e, cfg: *cfg, buf, ucap: *ucap });
    }
    if w.journal.is_some() {
        let mut r = vec!["hist".to_string(), (is_req as u8).to_string(), cap.to_string(), backend.id().to_string(), steps.len().to_string()];
        for (e, cfg, ucap, data) in steps {
            r.push(e.name().into());
            r.push(cfg.to_string());
            r.push(ucap.to_string());
            r.push(hex(data));
        }
        w.journal(&r);
    }
    let h = history::run(&mut w.ctx, is_req, cap, &placed, backend);
    w.st.evaluations += h.len() as u64;
    w.st.count("histories", 1);
    w.st.count(&format!("history_len:{}", steps.len() - 1), 1);
    let replay = || {
        let mut r = vec!["hist".to_string(), (is_req as u8).to_string(), cap.to_string(), backend.id().to_string(), steps.len().to_string()];
        for (e, cfg, ucap, data) in steps {
            r.push(e.name().into());
            r.push(cfg.to_string());
            r.push(ucap.to_string());
            r.push(hex(data));
        }
        r
    };
    if h.iter().any(|x| x.panicked) {
        w.st.violation(Violation { property: "C18".into(), rule: "call_panicked".into(), detail: format!("a call in the history panicked; steps={}", steps.len()), replay: replay(), signature: None });
        return true;
    }
    for (i, x) in h.iter().enumerate() {
        if i + 1 < h.len() {
            w.st.count(&format!("earlier_outcome:{}", HIST_NAMES[x.res.st.hist_idx()]), 1);
        }
    }
    let last = h.last().unwrap();
    let (pe, pcfg, pucap, pdata) = &steps[steps.len() - 1];
    let fresh_cap = if pe.is_uninit() { *pucap } else { last.len_before };
    let call = Call { entry: *pe, cfg: *pcfg, cap: fresh_cap, hplace: Place::End, backend };
    let pbuf = placed[placed.len() - 1].buf;
    let fresh = observe(&mut w.ctx, call, pbuf);
    w.st.seen(&fresh, pbuf);
    if last.len_before != cap {
        w.st.count("probe_on_shrunk_headers_slice", 1);
    }
    // the documented loop: as long as no earlier call completed, nothing may have changed the
    // headers slice, so the probe must behave like a fresh value over the ORIGINAL array
    let earlier_complete = h[..h.len() - 1].iter().any(|x| x.res.st.is_complete());
    if !earlier_complete {
        w.st.count("readme_loop_histories", 1);
        if last.len_before != cap {
            let d = format!("no earlier call completed, yet headers.len() went from {} to {} before the probe ({} earlier calls)", cap, last.len_before, steps.len() - 1);
            w.st.violation(Violation { property: "C18".into(), rule: "non_complete_call_changed_headers_slice".into(), detail: d, replay: replay(), signature: None });
            return true;
        }
    }
    w.st.count(&format!("probe_outcome:{}", HIST_NAMES[fresh.res.st.hist_idx()]), 1);
    if !last.res.same_outcome(&fresh.res) {
        let d = format!(
            "probe {} cfg={} on reused value (headers.len()={} before): {} | on fresh value of that capacity: {} | history of {} earlier calls, probe input={}",
            pe.name(),
            pcfg,
            last.len_before,
            last.res.show(pdata),
            fresh.res.show(pdata),
            steps.len() - 1,
            esc(pdata)
        );
        w.st.violation(Violation { property: "C18".into(), rule: "history_changes_outcome".into(), detail: d, replay: replay(), signature: None });
        return true;
    }
    if w.st.want_sample() && w.st.evaluations % 97 == 0 {
        let hs: Vec<J> = steps.iter().zip(h.iter()).map(|((e, cfg, _, data), x)| J::obj().set("entry", J::s(e.name())).set("cfg_bits", J::U(*cfg as u64)).set("input", J::S(esc(data))).set("status", J::S(x.res.st.show()))).collect();
        w.st.sample(J::obj().set("capacity", J::U(cap as u64)).set("calls_last_is_probe", J::A(hs)).set("fresh_probe", J::S(fresh.res.show(pdata))));
    }
    false
}

fn run_c18(w: &mut W) {
    let total = w.by_tier((320u64, 3000, 400_000, 8_000_000));
    let (shard, n) = (w.shard, w.nshards);
    let pools: Vec<Vec<Vec<u8>>> = [Kind::Req, Kind::Resp]
        .iter()
        .map(|k| {
            let mut p = gen::templates(*k);
            for l in if w.tier == Tier::Tiny { Vec::new() } else { gen::g8_literals() } {
                if gen::guess_kind(&l) == *k && l.len() < 600 {
                    p.push(l);
                }
            }
            p
        })
        .collect();
    for idx in 0..total {
        if idx % n != shard {
            continue;
        }
        let mut r = Rng::derive(w.seed, 0xc18, idx);
        let is_req = r.chance(1, 2);
        let kind = if is_req { Kind::Req } else { Kind::Resp };
        let pool = &pools[if is_req { 0 } else { 1 }];
        let es = kind.entries();
        let rel = relevant_cfgs(kind);
        let cap = *r.pick(&[0usize, 1, 2, 3, 4, 6, 16, 64]);
        let m = r.range(1, 4);
        let gen_buf = |r: &mut Rng| -> Vec<u8> {
            match r.below(10) {
                0..=3 => r.pick(pool).clone(),
                4..=5 => gen::g5(kind, r, 30, 60),
                6..=7 => {
                    let mut b = r.pick(pool).clone();
                    let o = r.pick(pool).clone();
                    gen::g6_mutate(r, &mut b, &o);
                    b
                }
                _ => {
                    // a prefix (Partial-prone)
                    let b = r.pick(pool).clone();
                    let k = r.below(b.len() + 1);
                    b[..k].to_vec()
                }
            }
        };
        let mut steps: Vec<HStep> = Vec::new();
        let probe_buf = gen_buf(&mut r);
        for j in 0..m {
            let e = *r.pick(es);
            let cfg = if e.takes_cfg() { *r.pick(&rel) | (r.byte() & 127 & if r.chance(1, 2) { 0 } else { 127 }) } else { 0 };
            let buf = if j + 1 == m && r.chance(1, 2) {
                // related to the probe: a prefix of it (the README loop) or an extension
                if r.chance(2, 3) {
                    let k = r.below(probe_buf.len() + 1);
                    probe_buf[..k].to_vec()
                } else {
                    let mut b = probe_buf.clone();
                    b.extend_from_slice(b"tail\r\n\r\n");
                    b
                }
            } else {
                gen_buf(&mut r)
            };
            steps.push((e, cfg, *r.pick(&[0usize, 1, 2, 4, 64]), buf));
        }
        let pe = *r.pick(es);
        let pcfg = if pe.takes_cfg() { *r.pick(&rel) } else { 0 };
        steps.push((pe, pcfg, *r.pick(&[0usize, 1, 2, 4, 64]), probe_buf));
        let backend = if w.can_force { BACKENDS3[r.below(3)] } else { Backend::AsIs };
        let mut hk = idx;
        for s in &steps {
            hk = mix(hk, hash_bytes(s.0.idx() as u64 ^ ((s.1 as u64) << 8), &s.3));
        }
        w.st.distinct_case(hk);
        history_case(w, is_req, cap, backend, &steps);
    }
}

// ------------------------------------------------------------------ C20

/// Bounds on the hook counters, in units of the buffer length. Calibrated on
/// the unchanged tree (observed maxima are reported in the evidence) with
/// head-room well above 2x; a super-linear change exceeds them by orders of
/// magnitude at the sizes used.
pub const C20_READS_PER_BYTE: f64 = 4.0;
pub const C20_BLOCKS_PER_BYTE: f64 = 2.5;
pub const C20_OPS_PER_BYTE: f64 = 8.0;
pub const C20_SLACK: f64 = 256.0;

fn scale_case(w: &mut W, name: &str, call: Call, data: &[u8], fam: Option<(usize, usize)>) -> bool {
    let fuel = w.ctx.fuel;
    let slots = w.ctx.collect_slots;
    w.ctx.fuel = false; // the counters themselves are the oracle here
    w.ctx.collect_slots = false;
    let (o, _) = w.obs(call, data, Place::End);
    w.ctx.fuel = fuel;
    w.ctx.collect_slots = slots;
    let len = data.len() as f64;
    let c = o.ctr;
    let replay = match fam {
        Some((f, n)) => vec!["scale".to_string(), f.to_string(), n.to_string(), call.backend.id().to_string()],
        None => crate::report::replay_call("C20", call.entry, call.cfg, call.cap, 1000, call.backend, data),
    };
    let mut bad: Option<(&str, String)> = None;
    if o.panic.is_some() {
        bad = Some(("call_panicked", o.panic.clone().unwrap()));
    } else if c.backward != 0 {
        bad = Some(("cursor_moved_backwards", format!("{} backward moves", c.backward)));
    } else if c.travel > data.len() as u64 {
        bad = Some(("cursor_travel_exceeds_length", format!("travel {} > len {}", c.travel, data.len())));
    } else if let St::Complete(n) = o.res.st {
        if c.travel != n as u64 {
            bad = Some(("cursor_travel_differs_from_consumed", format!("travel {} but Complete({})", c.travel, n)));
        }
    }
    if bad.is_none() {
        if c.reads as f64 > C20_READS_PER_BYTE * len + C20_SLACK {
            bad = Some(("byte_reads_superlinear", format!("{} reads for {} bytes", c.reads, data.len())));
        } else if c.blocks as f64 > C20_BLOCKS_PER_BYTE * len + C20_SLACK {
            bad = Some(("block_peeks_superlinear", format!("{} block peeks for {} bytes", c.blocks, data.len())));
        } else if c.ops as f64 > C20_OPS_PER_BYTE * len + C20_SLACK {
            bad = Some(("cursor_ops_superlinear", format!("{} cursor operations for {} bytes", c.ops, data.len())));
        }
    }
    if data.len() >= 512 {
        w.st.max(&format!("reads_per_byte:{}", name), c.reads as f64 / len);
        w.st.max(&format!("blocks_per_byte:{}", name), c.blocks as f64 / len);
        w.st.max(&format!("ops_per_byte:{}", name), c.ops as f64 / len);
        w.st.max("max_reads_per_byte", c.reads as f64 / len);
        w.st.max("max_blocks_per_byte", c.blocks as f64 / len);
        w.st.max("max_ops_per_byte", c.ops as f64 / len);
    }
    w.st.count(&format!("family:{}", name), 1);
    if w.st.want_sample() && w.st.evaluations % 13 == 1 {
        w.st.sample(
            J::obj()
                .set("family", J::s(name))
                .set("len", J::U(data.len() as u64))
                .set("entry", J::s(call.entry.name()))
                .set("cfg_bits", J::U(call.cfg as u64))
                .set("backend", J::s(call.backend.name()))
                .set("outcome", J::S(o.res.st.show()))
                .set("reads", J::U(c.reads))
                .set("block_peeks", J::U(c.blocks))
                .set("travel", J::U(c.travel))
                .set("cursor_ops", J::U(c.ops))
                .set("head", J::S(esc(&data[..data.len().min(48)]))),
        );
    }
    if let Some((rule, detail)) = bad {
        w.st.violation(Violation {
            property: "C20".into(),
            rule: rule.into(),
            detail: format!("{} | family={} len={} entry={} cfg={} backend={}", detail, name, data.len(), call.entry.name(), call.cfg, call.backend.name()),
            replay,
            signature: None,
        });
        return true;
    }
    false
}

fn run_c20(w: &mut W) {
    let sizes: Vec<usize> = match w.tier {
        Tier::Tiny => vec![1 << 8],
        Tier::Small => vec![1 << 10, 1 << 12],
        Tier::Quick => vec![1 << 10, 1 << 12, 1 << 14, 1 << 16, (1 << 16) + 37],
        Tier::Thorough => vec![1 << 10, 1 << 12, 1 << 14, 1 << 16, 1 << 18, 1 << 20, (1 << 20) - 29],
    };
    let mut idx = 0u64;
    let (shard, n) = (w.shard, w.nshards);
    let bks: Vec<Backend> = if w.can_force { BACKENDS3.to_vec() } else { vec![Backend::AsIs] };
    for fam in 0..gen::G7_FAMILIES {
        for &sz in &sizes {
            for &bk in &bks {
                idx += 1;
                if idx % n != shard {
                    continue;
                }
                let s = gen::g7(fam, sz);
                w.st.distinct_case(mix(hash_bytes(20, &s.buf), bk.id() as u64));
                scale_case(w, s.name, Call { entry: s.entry, cfg: s.cfg, cap: s.cap, hplace: Place::End, backend: bk }, &s.buf, Some((fam, sz)));
                // also every entry point of the same kind, and a cut in the middle (Partial paths)
                let kind = Kind::of(s.entry);
                for &e in kind.entries() {
                    if e != s.entry && (e.takes_cfg() || s.cfg == 0) {
                        scale_case(w, s.name, Call { entry: e, cfg: s.cfg, cap: s.cap, hplace: Place::End, backend: bk }, &s.buf, None);
                    }
                }
                let cut = s.buf.len() * 2 / 3;
                scale_case(w, s.name, Call { entry: s.entry, cfg: s.cfg, cap: s.cap, hplace: Place::End, backend: bk }, &s.buf[..cut], None);
            }
        }
    }
    // large random grammar-derived inputs with mutations
    let nrand = w.by_tier((4u64, 40, 1500, 20000));
    for i in 0..nrand {
        if i % n != shard {
            continue;
        }
        let mut r = Rng::derive(w.seed, 0xc20, i);
        let kind = gen::ALL_KINDS[r.below(4)];
        let maxf = *r.pick(&[300usize, 4000, 60000]);
        let mut b = gen::g5(kind, &mut r, 30, maxf);
        if r.chance(1, 2) {
            let o = b.clone();
            gen::g6_mutate(&mut r, &mut b, &o);
        }
        if b.len() > (1 << 20) {
            b.truncate(1 << 20);
        }
        let e = *r.pick(kind.entries());
        let rel = relevant_cfgs(kind);
        let cfg = if e.takes_cfg() { *r.pick(&rel) } else { 0 };
        let bk = if w.can_force { BACKENDS3[r.below(3)] } else { Backend::AsIs };
        w.st.distinct_case(hash_bytes(21, &b));
        scale_case(w, "random_grammar", Call { entry: e, cfg, cap: *r.pick(&[0usize, 4, 64, 1000]), hplace: Place::End, backend: bk }, &b, None);
    }
}
