//! Workload generators G1..G8 (DESIGN section 5). All deterministic functions of
//! their arguments / the supplied Rng.

use crate::rng::Rng;
use crate::types::*;

#[derive(Clone, Copy, PartialEq, Eq, Debug, Hash)]
pub enum Kind {
    Req,
    Resp,
    Hdr,
    Chunk,
}

impl Kind {
    pub fn of(e: Entry) -> Kind {
        match e {
            Entry::R1 | Entry::R2 | Entry::R3 | Entry::R4 => Kind::Req,
            Entry::S1 | Entry::S2 | Entry::S4 => Kind::Resp,
            Entry::H => Kind::Hdr,
            Entry::K => Kind::Chunk,
        }
    }
    pub fn entries(self) -> &'static [Entry] {
        match self {
            Kind::Req => &[Entry::R1, Entry::R2, Entry::R3, Entry::R4],
            Kind::Resp => &[Entry::S1, Entry::S2, Entry::S4],
            Kind::Hdr => &[Entry::H],
            Kind::Chunk => &[Entry::K],
        }
    }
    /// The entry point that takes a config (or the only one).
    pub fn main_entry(self) -> Entry {
        match self {
            Kind::Req => Entry::R2,
            Kind::Resp => Entry::S2,
            Kind::Hdr => Entry::H,
            Kind::Chunk => Entry::K,
        }
    }
    pub fn relevant_cfg(self) -> u8 {
        match self {
            Kind::Req => REQ_RELEVANT,
            Kind::Resp => RESP_RELEVANT,
            _ => 0,
        }
    }
}

pub const ALL_KINDS: [Kind; 4] = [Kind::Req, Kind::Resp, Kind::Hdr, Kind::Chunk];

// ------------------------------------------------------------------ G1

/// Header-block templates: (block without the terminating empty line's body).
const HDR_BLOCKS: &[&[u8]] = &[
    b"\r\n",
    b"\n",
    b"Host: example.com\r\n\r\n",
    b"Host: example.com\r\nAccept: */*\r\nUser-Agent: x/1.0 (y; z)\r\n\r\n",
    b"a:b\nc:d\n\n",
    b"Empty:\r\nEmpty2: \r\nEmpty3:\t \t\r\n\r\n",
    b"Ws:  \t value with  inner \t ws \t \r\n\r\n",
    b"Obs: caf\xc3\xa9 \xff\x80 end\r\n\r\n",
    b"X-Token!#$%&'*+-.^_`|~09AZaz: v\r\n\r\n",
    b"Content-Length: 5\r\nTransfer-Encoding: chunked\r\nConnection: close\r\nA: 1\r\nB: 2\r\n\r\n",
    // lenient constructs
    b"Name : v\r\nName2\t:v\r\n\r\n",
    b"Folded: hello\r\n there\r\n\tagain \r\nNext: v\r\n\r\n",
    b"F:\r\n x\r\n\r\n",
    b"F: \r\n \r\n\t\r\n\r\n",
    b"F: a\r\n \r\n\r\n",
    b"F: a\n b\n\n",
    b" Space-Before: v\r\n\r\n",
    b"\t \tSpace-Before: v\r\nSecond: w\r\n\r\n",
    b" \r\nA: b\r\n\r\n",
    b"Bad Header: x\r\nGood: y\r\n\r\n",
    b": empty-name\r\nGood: y\r\n\r\n",
    b"NoColon\r\nGood: y\r\n\r\n",
    b"Bad\x01Name: x\r\nGood: y\r\n\r\n",
    b"Bad: va\x01lue\r\nGood: y\r\n\r\n",
    b"Bad: va\x7flue\r\nGood: y\r\n\r\n",
    b"Nul\x00Name: x\r\nGood: y\r\n\r\n",
    b"Nul: va\x00lue\r\nGood: y\r\n\r\n",
    b"LoneCr: va\rlue\r\nGood: y\r\n\r\n",
    b"LoneCr\rName: v\r\nGood: y\r\n\r\n",
    b"Good: y\r\nBad Line\r\n continued\r\nGood2: z\r\n\r\n",
    b"A: b\r\n\rX",
    b"A: b\r\n\n",
    b"A: b\n\r\n",
    b"A: b\r\r\n\r\n",
];

const REQ_LINES: &[&[u8]] = &[
    b"GET / HTTP/1.1\r\n",
    b"GET /a/b?c=d&e=f HTTP/1.0\r\n",
    b"POST /submit HTTP/1.1\r\n",
    b"OPTIONS * HTTP/1.1\n",
    b"\r\n\nGET /caf\xc3\xa9/\xe2\x82\xac HTTP/1.1\r\n",
    b"X-CUSTOM!#$%&'*+-.^_`|~ /x HTTP/1.1\r\n",
    b"G / HTTP/1.1\r\n",
    b"POS / HTTP/1.1\r\n",
    b"POSTX / HTTP/1.1\r\n",
    b"GETX http://h:80/p?q#f HTTP/1.1\r\n",
    b"GET  /  HTTP/1.1\r\n",
    b"GET    /multi     HTTP/1.0\n",
    b"GET /bad\xffutf HTTP/1.1\r\n",
    b"GET /\\\"{}^`|<> HTTP/1.1\r\n",
];

const RESP_LINES: &[&[u8]] = &[
    b"HTTP/1.1 200 OK\r\n",
    b"HTTP/1.0 404 Not Found\r\n",
    b"HTTP/1.1 200\r\n",
    b"HTTP/1.1 200 \r\n",
    b"HTTP/1.1 200\n",
    b"HTTP/1.1 301 \n",
    b"\r\n\nHTTP/1.1 599 Weird\tReason  x\r\n",
    b"HTTP/1.1 200 X\xffZ\r\n",
    b"HTTP/1.1 200 \xc3\xa9\r\n",
    b"HTTP/1.1   200   OK\r\n",
    b"HTTP/1.1 200   spaced\r\n",
    b"HTTP/1.1  204\r\n",
    b"HTTP/1.1 000 z\r\n",
    b"HTTP/1.1 999 ~!\r\n",
];

const CHUNKS: &[&[u8]] = &[
    b"0\r\n",
    b"4\r\nRust\r\n0\r\n\r\n",
    b"FFFFFFFFFFFFFFFF\r\n",
    b"ffffffffffffffff\r\n",
    b"10000000000000000\r\n",
    b"0000000000000001\r\n",
    b"00000000000000001\r\n",
    b"1a ; ext=1\r\n",
    b"10\t \r\n",
    b"abc;x\ry\r\n",
    b"abc;x\n\r\n",
    b"A;\r\n",
    b"567 8\r\n",
    b"56 ;;a=\"b\"\r\n",
    b"9\n",
    b"9\rX",
    b"g\r\n",
    b"\r\n",
    b";x\r\n",
    b" 1\r\n",
    b"1 ;\x00\xff\r\n",
];

const BODIES: &[&[u8]] = &[b"", b"body", b"\r\n\r\nmore\r\n\r\n", b"\n\n", b"GET / HTTP/1.1\r\n\r\n", b" \t", b"\r", b"\0"];

pub fn hdr_blocks() -> Vec<Vec<u8>> {
    HDR_BLOCKS.iter().map(|b| b.to_vec()).collect()
}

/// G1: canonical inputs for a kind (start lines x header blocks x bodies, pruned).
pub fn templates(kind: Kind) -> Vec<Vec<u8>> {
    let mut v: Vec<Vec<u8>> = Vec::new();
    match kind {
        Kind::Hdr => {
            for (i, h) in HDR_BLOCKS.iter().enumerate() {
                let mut b = h.to_vec();
                b.extend_from_slice(BODIES[i % BODIES.len()]);
                v.push(b);
            }
        }
        Kind::Chunk => {
            for c in CHUNKS {
                v.push(c.to_vec());
            }
        }
        Kind::Req | Kind::Resp => {
            let lines = if kind == Kind::Req { REQ_LINES } else { RESP_LINES };
            // every start line with two header blocks, every header block with two start lines
            for (i, l) in lines.iter().enumerate() {
                for k in 0..2 {
                    let h = HDR_BLOCKS[(i * 2 + k * 7 + 2) % HDR_BLOCKS.len()];
                    let mut b = l.to_vec();
                    b.extend_from_slice(h);
                    b.extend_from_slice(BODIES[(i + k) % BODIES.len()]);
                    v.push(b);
                }
            }
            for (i, h) in HDR_BLOCKS.iter().enumerate() {
                let l = lines[i % 3];
                let mut b = l.to_vec();
                b.extend_from_slice(h);
                b.extend_from_slice(BODIES[(i * 3 + 1) % BODIES.len()]);
                v.push(b);
            }
            // long target / long reason / many headers
            if kind == Kind::Req {
                let mut b = b"GET /".to_vec();
                b.extend(std::iter::repeat(b'a').take(300));
                b.extend_from_slice(b" HTTP/1.1\r\nHost: h\r\n\r\n");
                v.push(b);
            } else {
                let mut b = b"HTTP/1.1 200 ".to_vec();
                b.extend(std::iter::repeat(b'r').take(120));
                b.extend_from_slice(b"\r\nServer: s\r\n\r\n");
                v.push(b);
            }
            let mut b = lines[0].to_vec();
            for i in 0..40 {
                b.extend_from_slice(format!("H{}: v{}\r\n", i, i).as_bytes());
            }
            b.extend_from_slice(b"\r\n");
            v.push(b);
        }
    }
    v
}

/// A short, mostly valid set used where each buffer is expensive.
pub fn templates_small(kind: Kind) -> Vec<Vec<u8>> {
    let t = templates(kind);
    let n = t.len();
    t.into_iter().enumerate().filter(|(i, b)| b.len() <= 90 && (i % 2 == 0 || n < 30)).map(|(_, b)| b).collect()
}

// ------------------------------------------------------------------ G2

/// Byte sweep: every value at every position (replace and insert), plus delete.
pub fn g2_sweep(t: &[u8], values: &[u8], f: &mut dyn FnMut(&[u8])) {
    let mut b = Vec::with_capacity(t.len() + 1);
    for p in 0..t.len() {
        for &v in values {
            if v != t[p] {
                b.clear();
                b.extend_from_slice(t);
                b[p] = v;
                f(&b);
            }
            b.clear();
            b.extend_from_slice(&t[..p]);
            b.push(v);
            b.extend_from_slice(&t[p..]);
            f(&b);
        }
        b.clear();
        b.extend_from_slice(&t[..p]);
        b.extend_from_slice(&t[p + 1..]);
        f(&b);
    }
}

pub fn all_bytes() -> Vec<u8> {
    (0..=255u8).collect()
}

/// The class-boundary byte set.
pub const BOUNDARY: [u8; 16] = [0x00, 0x08, 0x09, 0x0A, 0x0D, 0x1F, 0x20, 0x21, 0x22, 0x3A, 0x7E, 0x7F, 0x80, 0xC3, 0xFF, b'a'];

// ------------------------------------------------------------------ G3

#[derive(Clone, Copy, PartialEq, Eq, Debug)]
pub enum Field {
    Target,
    Method,
    Name,
    Value,
    Reason,
    IgnoredLine,
    Ows,
    ChunkExt,
}

pub const REQ_FIELDS: [Field; 5] = [Field::Target, Field::Method, Field::Name, Field::Value, Field::IgnoredLine];
pub const RESP_FIELDS: [Field; 5] = [Field::Reason, Field::Name, Field::Value, Field::IgnoredLine, Field::Ows];

fn filler(field: Field, i: usize, variant: usize) -> u8 {
    if variant == 1 {
        // obs-text-rich filler: bytes at the upper end of the classes next to the special byte
        match field {
            Field::Value | Field::Reason | Field::IgnoredLine | Field::ChunkExt => return [b'v', 0xFF, 0xA0, b'~', 0x80, b' ', 0xFE][i % 7],
            // valid two-byte UTF-8 pairs (the target must stay valid UTF-8 to be accepted)
            Field::Target => return [0xC3, 0xA9, b'~', 0xDF, 0xBF, b'!'][i % 6],
            _ => {}
        }
    }
    if variant == 2 {
        // plain letters only: nothing that a "clean ASCII word" fast path would bail out on
        return match field {
            Field::Ows => [b' ', b'\t'][i % 2],
            _ => b'a' + (i % 26) as u8,
        };
    }
    match field {
        Field::Target => [b'a', b'/', b'~', b'!', b'z', b'%'][i % 6],
        Field::Method | Field::Name => [b'A', b'b', b'-', b'9', b'_', b'~'][i % 6],
        Field::Value => [b'v', b' ', b'\t', b'~', b'!', b'x'][i % 6],
        Field::Reason => [b'r', b' ', b'\t', b'~', b'!', b'x'][i % 6],
        Field::IgnoredLine => [b'i', b' ', b'(', b'~', b'@', b'x'][i % 6],
        Field::Ows => [b' ', b'\t'][i % 2],
        Field::ChunkExt => [b'e', b'=', b'"', b' ', b'\n', b'x'][i % 6],
    }
}

/// Message holding `field` of length `l` with byte `v` at position `q`
/// (q >= l: no special byte), preceded by `phase` bytes of valid padding.
pub fn g3_message(kind: Kind, field: Field, l: usize, q: usize, v: u8, phase: usize, lf_only: bool) -> Vec<u8> {
    g3_message_v(kind, field, l, q, v, phase, lf_only, 0)
}

pub fn g3_message_v(kind: Kind, field: Field, l: usize, q: usize, v: u8, phase: usize, lf_only: bool, variant: usize) -> Vec<u8> {
    let eol: &[u8] = if lf_only { b"\n" } else { b"\r\n" };
    let mut fld: Vec<u8> = (0..l).map(|i| filler(field, i, variant)).collect();
    if field == Field::Value || field == Field::Reason {
        // keep first/last visible so trimming does not hide the special byte's position
        if l > 0 {
            fld[0] = b'v';
            fld[l - 1] = b'w';
        }
    }
    if q < l {
        fld[q] = v;
    }
    let mut b: Vec<u8> = Vec::with_capacity(l + phase + 64);
    if kind == Kind::Chunk {
        b.extend_from_slice(b"1f");
        b.extend(std::iter::repeat(b' ').take(phase));
        b.push(b';');
        b.extend_from_slice(&fld);
        b.extend_from_slice(b"\r\n");
        return b;
    }
    // leading empty lines shift the phase of everything that follows
    if kind != Kind::Hdr {
        for i in 0..phase {
            if i % 3 == 2 && !lf_only {
                // keep CRLF pairs intact
                b.push(b'\n');
            } else {
                b.push(b'\n');
            }
        }
    } else {
        // header-only entry: pad with a preceding header line of the right size
        if phase >= 5 {
            b.extend_from_slice(b"P:");
            b.extend(std::iter::repeat(b'p').take(phase - 4));
            b.extend_from_slice(b"\r\n");
        }
    }
    match kind {
        Kind::Req => match field {
            Field::Target => {
                b.extend_from_slice(b"GET ");
                b.extend_from_slice(&fld);
                b.extend_from_slice(b" HTTP/1.1");
                b.extend_from_slice(eol);
                b.extend_from_slice(b"H: v");
                b.extend_from_slice(eol);
                b.extend_from_slice(eol);
                return b;
            }
            Field::Method => {
                b.extend_from_slice(&fld);
                b.extend_from_slice(b" /p HTTP/1.1");
                b.extend_from_slice(eol);
                b.extend_from_slice(eol);
                return b;
            }
            _ => {
                b.extend_from_slice(b"GET /p HTTP/1.1");
                b.extend_from_slice(eol);
            }
        },
        Kind::Resp => match field {
            Field::Reason => {
                b.extend_from_slice(b"HTTP/1.1 200 ");
                b.extend_from_slice(&fld);
                b.extend_from_slice(eol);
                b.extend_from_slice(b"H: v");
                b.extend_from_slice(eol);
                b.extend_from_slice(eol);
                return b;
            }
            _ => {
                b.extend_from_slice(b"HTTP/1.1 200 OK");
                b.extend_from_slice(eol);
            }
        },
        _ => {}
    }
    match field {
        Field::Name => {
            b.extend_from_slice(&fld);
            b.extend_from_slice(b": v");
            b.extend_from_slice(eol);
        }
        Field::Value => {
            b.extend_from_slice(b"N: ");
            b.extend_from_slice(&fld);
            b.extend_from_slice(eol);
        }
        Field::IgnoredLine => {
            b.extend_from_slice(b"Bad Name");
            b.extend_from_slice(&fld);
            b.extend_from_slice(eol);
            b.extend_from_slice(b"K: kept");
            b.extend_from_slice(eol);
        }
        Field::Ows => {
            b.extend_from_slice(b"N:");
            b.extend_from_slice(&fld);
            b.extend_from_slice(b"val");
            b.extend_from_slice(&fld);
            b.extend_from_slice(eol);
        }
        _ => {}
    }
    b.extend_from_slice(b"Z: last");
    b.extend_from_slice(eol);
    b.extend_from_slice(eol);
    b
}

// ------------------------------------------------------------------ G4

pub const SIGMA_H: [u8; 12] = [b'a', b':', b' ', b'\t', b'\r', b'\n', 0x00, 0x1F, 0x7F, 0x80, 0xFF, b'"'];
pub const SIGMA_R: [u8; 22] = [
    b'G', b'E', b'T', b'P', b'O', b'S', b'a', b' ', b'/', b'H', b'1', b'.', b'0', b'2', b'\r', b'\n', 0x00, b'\t', 0x7F, 0x80, 0xC3, b':',
];
pub const SIGMA_S: [u8; 20] = [
    b'H', b'T', b'P', b'/', b'1', b'.', b'0', b'2', b'9', b' ', b'a', b'\r', b'\n', 0x00, b'\t', 0x7F, 0x80, b':', b'O', b'K',
];
pub const SIGMA_C: [u8; 14] = [b'0', b'9', b'a', b'f', b'A', b'F', b'g', b' ', b'\t', b';', b'\r', b'\n', 0x00, 0xFF];

/// Resume contexts for header-block enumeration (appended to a start line, or alone for H).
pub const HDR_CONTEXTS: [&[u8]; 9] = [
    b"",
    b"A: b\r\n",
    b"Bad Name\r\n",
    b"A",
    b"A:",
    b"A: v",
    b"A: v\r\n ",
    b"A: v\r",
    b"A:\r\n",
];

pub fn req_contexts() -> Vec<Vec<u8>> {
    let mut v: Vec<Vec<u8>> = vec![b"".to_vec(), b"\r".to_vec(), b"\r\n".to_vec()];
    let full = b"GET / HTTP/1.1\r";
    for k in 1..=full.len() {
        v.push(full[..k].to_vec());
    }
    for p in [&b"POS"[..], b"POST", b"POST ", b"POST /x", b"GET  ", b"GET /  ", b"PUT /\xc3", b"GET / HTTP/1.1\r\n"] {
        v.push(p.to_vec());
    }
    v
}

pub fn resp_contexts() -> Vec<Vec<u8>> {
    let mut v: Vec<Vec<u8>> = vec![b"".to_vec(), b"\n".to_vec()];
    let full = b"HTTP/1.1 200 OK\r";
    for k in 1..=full.len() {
        v.push(full[..k].to_vec());
    }
    for p in [&b"HTTP/1.1  "[..], b"HTTP/1.1  2", b"HTTP/1.1 200  ", b"HTTP/1.1 200  O", b"HTTP/1.0 404", b"HTTP/1.1 200 OK\r\n", b"HTTP/1.1 200 \x80"] {
        v.push(p.to_vec());
    }
    v
}

/// Enumerate ctx ++ w for all w in sigma^l (l exact). `f(buf, ctx_len)`.
pub fn g4_words(ctx: &[u8], sigma: &[u8], l: usize, f: &mut dyn FnMut(&[u8])) {
    let mut buf = ctx.to_vec();
    let base = buf.len();
    buf.resize(base + l, sigma[0]);
    let mut idx = vec![0usize; l];
    loop {
        for k in 0..l {
            buf[base + k] = sigma[idx[k]];
        }
        f(&buf);
        // increment
        let mut k = l;
        loop {
            if k == 0 {
                return;
            }
            k -= 1;
            idx[k] += 1;
            if idx[k] < sigma.len() {
                break;
            }
            idx[k] = 0;
        }
        if l == 0 {
            return;
        }
    }
}

/// All lengths 0..=l.
pub fn g4_upto(ctx: &[u8], sigma: &[u8], l: usize, f: &mut dyn FnMut(&[u8])) {
    for k in 0..=l {
        g4_words(ctx, sigma, k, f);
    }
}

// ------------------------------------------------------------------ G5

const TCHARS: &[u8] = b"abcdefghijklmnopqrstuvwxyzABCDEFGHIJKLMNOPQRSTUVWXYZ0123456789!#$%&'*+-.^_`|~";

fn rand_token(r: &mut Rng, len: usize, out: &mut Vec<u8>) {
    for _ in 0..len {
        out.push(*r.pick(TCHARS));
    }
}

fn rand_target(r: &mut Rng, len: usize, out: &mut Vec<u8>) {
    let mut n = 0;
    while n < len {
        match r.below(20) {
            0 => {
                out.extend_from_slice("é".as_bytes());
                n += 2;
            }
            1 => {
                out.extend_from_slice("€".as_bytes());
                n += 3;
            }
            2 => {
                out.extend_from_slice("😀".as_bytes());
                n += 4;
            }
            _ => {
                out.push(r.range(0x21, 0x7E) as u8);
                n += 1;
            }
        }
    }
}

fn rand_value(r: &mut Rng, len: usize, out: &mut Vec<u8>) {
    for i in 0..len {
        let edge = i == 0 || i + 1 == len;
        let b = match r.below(16) {
            0 if !edge => b' ',
            1 if !edge => b'\t',
            2 => r.range(0x80, 0xFF) as u8,
            _ => r.range(0x21, 0x7E) as u8,
        };
        out.push(b);
    }
}

fn rand_ows(r: &mut Rng, out: &mut Vec<u8>) {
    let n = match r.below(10) {
        0..=5 => r.below(2),
        6..=8 => r.below(4),
        _ => r.below(40),
    };
    for _ in 0..n {
        out.push(if r.chance(1, 4) { b'\t' } else { b' ' });
    }
}

fn eol(r: &mut Rng, out: &mut Vec<u8>) {
    if r.chance(1, 5) {
        out.push(b'\n');
    } else {
        out.extend_from_slice(b"\r\n");
    }
}

/// `lenient` in 0..=100: probability (percent) of each lenient / invalid construct per line.
pub fn g5_header_block(r: &mut Rng, lenient: usize, max_field: usize, out: &mut Vec<u8>) {
    let n = match r.below(10) {
        0 => 0,
        1..=6 => r.range(1, 4),
        7..=8 => r.range(4, 12),
        _ => r.range(12, 70),
    };
    for li in 0..n {
        let roll = r.below(100);
        if roll < lenient {
            match r.below(12) {
                0 => {
                    // space before colon
                    { let n_ = r.range(1, 8); rand_token(r, n_, out) };
                    out.push(if r.chance(1, 3) { b'\t' } else { b' ' });
                    if r.chance(1, 3) {
                        out.push(b' ');
                    }
                    out.push(b':');
                    rand_ows(r, out);
                    { let n_ = r.below(10); rand_value(r, n_, out) };
                    eol(r, out);
                }
                1 | 2 => {
                    // folded value
                    { let n_ = r.range(1, 8); rand_token(r, n_, out) };
                    out.push(b':');
                    rand_ows(r, out);
                    let parts = r.range(1, 4);
                    for p in 0..parts {
                        let l = r.below(10);
                        rand_value(r, l, out);
                        rand_ows(r, out);
                        eol(r, out);
                        if p + 1 < parts || r.chance(1, 6) {
                            out.push(if r.chance(1, 3) { b'\t' } else { b' ' });
                            rand_ows(r, out);
                        } else {
                            break;
                        }
                        if p + 1 == parts {
                            // dangling continuation: finish with a line end
                            { let n_ = r.below(4); rand_value(r, n_, out) };
                            eol(r, out);
                        }
                    }
                }
                3 => {
                    // leading whitespace line (space before first header, or fold)
                    out.push(if r.chance(1, 3) { b'\t' } else { b' ' });
                    rand_ows(r, out);
                    if r.chance(2, 3) {
                        { let n_ = r.range(1, 6); rand_token(r, n_, out) };
                        out.extend_from_slice(b": ");
                        { let n_ = r.below(8); rand_value(r, n_, out) };
                    }
                    eol(r, out);
                }
                4 => {
                    // missing colon
                    { let n_ = r.range(1, 12); rand_token(r, n_, out) };
                    eol(r, out);
                }
                5 => {
                    // empty name
                    out.push(b':');
                    { let n_ = r.below(6); rand_value(r, n_, out) };
                    eol(r, out);
                }
                6 => {
                    // invalid byte in name
                    { let n_ = r.below(5); rand_token(r, n_, out) };
                    { let c_ = *r.pick(&[b'(', b')', b'"', b'@', b'/', b'[', 0x01, 0x7F, 0x80, b'=', b';']); out.push(c_); }
                    { let n_ = r.below(5); rand_token(r, n_, out) };
                    out.extend_from_slice(b": v");
                    eol(r, out);
                }
                7 => {
                    // invalid byte in value
                    { let n_ = r.range(1, 5); rand_token(r, n_, out) };
                    out.extend_from_slice(b": ");
                    { let n_ = r.below(6); rand_value(r, n_, out) };
                    out.push(*r.pick(&[0x01, 0x08, 0x0B, 0x0C, 0x1F, 0x7F]));
                    { let n_ = r.below(6); rand_value(r, n_, out) };
                    eol(r, out);
                }
                8 => {
                    // NUL somewhere
                    { let n_ = r.range(1, 5); rand_token(r, n_, out) };
                    if r.chance(1, 2) {
                        out.push(0);
                    }
                    out.extend_from_slice(b": a");
                    if r.chance(1, 2) {
                        out.push(0);
                    }
                    eol(r, out);
                }
                9 => {
                    // lone CR
                    { let n_ = r.range(1, 5); rand_token(r, n_, out) };
                    out.extend_from_slice(b": a\rb");
                    eol(r, out);
                }
                10 => {
                    // whitespace-only line
                    out.push(b' ');
                    rand_ows(r, out);
                    eol(r, out);
                }
                _ => {
                    // invalid line followed by a continuation
                    out.extend_from_slice(b"Bad Line");
                    eol(r, out);
                    out.extend_from_slice(b" cont");
                    eol(r, out);
                }
            }
            continue;
        }
        let nl = if r.chance(1, 30) { r.heavy_len(max_field).max(1) } else { r.range(1, 16) };
        rand_token(r, nl, out);
        out.push(b':');
        rand_ows(r, out);
        let vl = r.heavy_len(max_field);
        rand_value(r, vl, out);
        rand_ows(r, out);
        eol(r, out);
        let _ = li;
    }
    eol(r, out);
}

pub fn g5(kind: Kind, r: &mut Rng, lenient: usize, max_field: usize) -> Vec<u8> {
    let mut b = Vec::new();
    match kind {
        Kind::Chunk => {
            let digits = match r.below(10) {
                0 => 0,
                1 => 16,
                2 => 17,
                3 => r.range(15, 20),
                _ => r.range(1, 16),
            };
            for i in 0..digits {
                let d = match r.below(6) {
                    0 => b'0',
                    1 => b'f',
                    2 => b'F',
                    _ => *r.pick(b"0123456789abcdefABCDEF"),
                };
                let _ = i;
                b.push(d);
            }
            if r.chance(lenient, 300) {
                b.push(*r.pick(&[b'g', b'x', b'-', b'\n', 0, 0xFF]));
            }
            if r.chance(1, 3) {
                rand_ows(r, &mut b);
            }
            if r.chance(1, 2) {
                b.push(b';');
                let n = r.heavy_len(max_field);
                for _ in 0..n {
                    let mut c = r.byte();
                    if c == b'\r' && !r.chance(1, 20) {
                        c = b'x';
                    }
                    b.push(c);
                }
            }
            if r.chance(1, 20) {
                b.push(b'\n');
            } else {
                b.extend_from_slice(b"\r\n");
            }
        }
        Kind::Hdr => g5_header_block(r, lenient, max_field, &mut b),
        Kind::Req => {
            for _ in 0..(if r.chance(1, 6) { r.range(1, 3) } else { 0 }) {
                eol(r, &mut b);
            }
            match r.below(6) {
                0 => b.extend_from_slice(b"GET"),
                1 => b.extend_from_slice(b"POST"),
                _ => {
                    let l = r.range(1, 10);
                    rand_token(r, l, &mut b)
                }
            }
            b.push(b' ');
            if r.chance(lenient, 200) {
                rand_spaces(r, &mut b);
            }
            let tl = if r.chance(1, 20) { r.heavy_len(max_field).max(1) } else { r.range(1, 40) };
            rand_target(r, tl, &mut b);
            b.push(b' ');
            if r.chance(lenient, 200) {
                rand_spaces(r, &mut b);
            }
            b.extend_from_slice(if r.chance(1, 3) { b"HTTP/1.0" } else { b"HTTP/1.1" });
            eol(r, &mut b);
            g5_header_block(r, lenient, max_field, &mut b);
        }
        Kind::Resp => {
            for _ in 0..(if r.chance(1, 6) { r.range(1, 3) } else { 0 }) {
                eol(r, &mut b);
            }
            b.extend_from_slice(if r.chance(1, 3) { b"HTTP/1.0" } else { b"HTTP/1.1" });
            b.push(b' ');
            if r.chance(lenient, 200) {
                rand_spaces(r, &mut b);
            }
            for _ in 0..3 {
                b.push(b'0' + r.below(10) as u8);
            }
            match r.below(5) {
                0 => {}
                1 => b.push(b' '),
                _ => {
                    b.push(b' ');
                    if r.chance(lenient, 200) {
                        rand_spaces(r, &mut b);
                    }
                    let l = r.heavy_len(max_field.min(200));
                    for _ in 0..l {
                        let c = match r.below(20) {
                            0 => b' ',
                            1 => b'\t',
                            2 => r.range(0x80, 0xFF) as u8,
                            _ => r.range(0x21, 0x7E) as u8,
                        };
                        b.push(c);
                    }
                }
            }
            eol(r, &mut b);
            g5_header_block(r, lenient, max_field, &mut b);
        }
    }
    if kind != Kind::Chunk && r.chance(1, 2) {
        let body = *r.pick(BODIES);
        b.extend_from_slice(body);
    }
    b
}

fn rand_spaces(r: &mut Rng, out: &mut Vec<u8>) {
    for _ in 0..r.range(1, 4) {
        out.push(b' ');
    }
}

// ------------------------------------------------------------------ G6

pub fn g6_mutate(r: &mut Rng, b: &mut Vec<u8>, other: &[u8]) {
    let n = r.range(1, 4);
    for _ in 0..n {
        if b.is_empty() {
            b.push(r.byte());
            continue;
        }
        let p = r.below(b.len());
        match r.below(13) {
            0 => b[p] ^= 1 << r.below(8),
            1 => b[p] = *r.pick(&BOUNDARY),
            2 => b.insert(p, *r.pick(&BOUNDARY)),
            3 => {
                b.remove(p);
            }
            4 => {
                let e = (p + r.range(1, 8)).min(b.len());
                let seg: Vec<u8> = b[p..e].to_vec();
                for (k, x) in seg.iter().enumerate() {
                    b.insert(p + k, *x);
                }
            }
            5 => {
                // splice with another message
                let q = r.below(other.len() + 1);
                b.truncate(p);
                b.extend_from_slice(&other[q..]);
            }
            6 => b.truncate(p),
            7 => {
                // CRLF <-> LF
                if let Some(i) = b.iter().skip(p).position(|c| *c == b'\r') {
                    b.remove(p + i);
                } else if let Some(i) = b.iter().position(|c| *c == b'\n') {
                    b.insert(i, b'\r');
                }
            }
            8 => b.insert(p, if r.chance(1, 2) { b' ' } else { b'\t' }),
            9 => {
                // inject a fold
                b.insert(p, b' ');
                b.insert(p, b'\n');
                b.insert(p, b'\r');
            }
            10 => {
                if b[p].is_ascii_alphabetic() {
                    b[p] ^= 0x20
                } else {
                    b[p] = r.byte()
                }
            }
            11 => b[p] = r.byte(),
            _ => b.insert(p, r.byte()),
        }
    }
}

// ------------------------------------------------------------------ G7

pub struct Scale {
    pub name: &'static str,
    pub entry: Entry,
    pub cfg: u8,
    pub buf: Vec<u8>,
    pub cap: usize,
}

pub const G7_FAMILIES: usize = 61;

/// Adversarial scaling family `fam` at size about `n` bytes.
/// Combinatorial tiny-header families (fam 37..60): line ending x value shape x OWS, through
/// Request::parse (18) and parse_headers (6). Many short lines make per-line costs visible.
fn g7_tiny(fam: usize, n: usize) -> Scale {
    const NAMES: [&str; 24] = [
        "tiny_crlf_empty", "tiny_crlf_empty_sp", "tiny_crlf_empty_sptab", "tiny_crlf_b", "tiny_crlf_b_sp", "tiny_crlf_b_sptab", "tiny_crlf_bcd", "tiny_crlf_bcd_sp", "tiny_crlf_bcd_sptab",
        "tiny_lf_empty", "tiny_lf_empty_sp", "tiny_lf_empty_sptab", "tiny_lf_b", "tiny_lf_b_sp", "tiny_lf_b_sptab", "tiny_lf_bcd", "tiny_lf_bcd_sp", "tiny_lf_bcd_sptab",
        "hdrs_crlf_empty", "hdrs_crlf_b", "hdrs_crlf_bcd", "hdrs_lf_empty", "hdrs_lf_b", "hdrs_lf_bcd",
    ];
    let k = fam - 37;
    let (lf, val, ows, hdr_entry) = if k < 18 { (k / 9 == 1, (k % 9) / 3, k % 3, false) } else { ((k - 18) / 3 == 1, (k - 18) % 3, 0, true) };
    let mut unit = b"a:".to_vec();
    unit.extend_from_slice([&b""[..], b" ", b" \t"][ows]);
    unit.extend_from_slice([&b""[..], b"b", b"b c d"][val]);
    unit.extend_from_slice([&b""[..], b" ", b" \t"][ows]);
    unit.extend_from_slice(if lf { b"\n" } else { b"\r\n" });
    let mut b: Vec<u8> = if hdr_entry { Vec::new() } else { b"GET / HTTP/1.1\r\n".to_vec() };
    let lines = n / unit.len() + 1;
    for _ in 0..lines {
        b.extend_from_slice(&unit);
    }
    b.extend_from_slice(if lf { b"\n" } else { b"\r\n" });
    Scale { name: NAMES[k], entry: if hdr_entry { Entry::H } else { Entry::R1 }, cfg: 0, buf: b, cap: lines + 2 }
}

pub fn g7(fam: usize, n: usize) -> Scale {
    if fam >= 37 {
        return g7_tiny(fam, n);
    }
    let rep = |unit: &[u8], total: usize| -> Vec<u8> {
        let mut v = Vec::with_capacity(total + unit.len());
        while v.len() < total {
            v.extend_from_slice(unit);
        }
        v
    };
    let resp = b"HTTP/1.1 200 OK\r\n";
    let req = b"GET / HTTP/1.1\r\n";
    let mut b: Vec<u8>;
    let (name, entry, cfg, cap): (&'static str, Entry, u8, usize);
    match fam {
        0 => {
            name = "fold_1byte_lines";
            b = resp.to_vec();
            b.extend_from_slice(b"F: a\r\n");
            b.extend(rep(b" b\r\n", n));
            b.extend_from_slice(b"\r\n");
            entry = Entry::S2;
            cfg = FOLD;
            cap = 4;
        }
        1 => {
            name = "fold_empty_value_lines";
            b = resp.to_vec();
            b.extend_from_slice(b"F:\r\n");
            b.extend(rep(b" \r\n", n));
            b.extend_from_slice(b"\r\n");
            entry = Entry::S2;
            cfg = FOLD;
            cap = 4;
        }
        2 => {
            name = "ignored_1byte_lines_resp";
            b = resp.to_vec();
            b.extend(rep(b"(\r\n", n));
            b.extend_from_slice(b"\r\n");
            entry = Entry::S2;
            cfg = IGNRESP;
            cap = 4;
        }
        3 => {
            name = "ignored_lines_req";
            b = req.to_vec();
            b.extend(rep(b"Bad Name: x\r\n", n));
            b.extend_from_slice(b"\r\n");
            entry = Entry::R2;
            cfg = IGNREQ;
            cap = 4;
        }
        4 => {
            name = "space_before_first_run";
            b = resp.to_vec();
            b.extend(rep(b" \t", n));
            b.extend_from_slice(b"A: b\r\n\r\n");
            entry = Entry::S2;
            cfg = SBF;
            cap = 4;
        }
        5 => {
            name = "spaces_before_colon";
            b = resp.to_vec();
            b.extend_from_slice(b"Name");
            b.extend(rep(b" \t", n));
            b.extend_from_slice(b": v\r\n\r\n");
            entry = Entry::S2;
            cfg = SA;
            cap = 4;
        }
        6 => {
            name = "ows_after_colon";
            b = req.to_vec();
            b.extend_from_slice(b"Name:");
            b.extend(rep(b" \t", n));
            b.extend_from_slice(b"v\r\n\r\n");
            entry = Entry::R1;
            cfg = 0;
            cap = 4;
        }
        7 => {
            name = "trailing_ows_in_value";
            b = req.to_vec();
            b.extend_from_slice(b"Name: v");
            b.extend(rep(b" \t", n));
            b.extend_from_slice(b"\r\n\r\n");
            entry = Entry::R1;
            cfg = 0;
            cap = 4;
        }
        8 => {
            name = "tab_run_in_value";
            b = req.to_vec();
            b.extend_from_slice(b"Name: v");
            b.extend(rep(b"\t", n));
            b.extend_from_slice(b"w\r\n\r\n");
            entry = Entry::R1;
            cfg = 0;
            cap = 4;
        }
        9 => {
            name = "tab_alternation_in_value";
            b = req.to_vec();
            b.extend_from_slice(b"Name: v");
            b.extend(rep(b"\ta", n));
            b.extend_from_slice(b"\r\n\r\n");
            entry = Entry::R1;
            cfg = 0;
            cap = 4;
        }
        10 => {
            name = "tab_every_8";
            b = req.to_vec();
            b.extend_from_slice(b"Name: v");
            b.extend(rep(b"aaaaaaa\t", n));
            b.extend_from_slice(b"w\r\n\r\n");
            entry = Entry::R1;
            cfg = 0;
            cap = 4;
        }
        11 => {
            name = "tab_every_33";
            b = req.to_vec();
            b.extend_from_slice(b"Name: v");
            b.extend(rep(b"aaaaaaaaaaaaaaaaaaaaaaaaaaaaaaaa\t", n));
            b.extend_from_slice(b"w\r\n\r\n");
            entry = Entry::R1;
            cfg = 0;
            cap = 4;
        }
        12 => {
            name = "tiny_headers_cap_n";
            b = req.to_vec();
            b.extend(rep(b"a:b\r\n", n));
            b.extend_from_slice(b"\r\n");
            entry = Entry::R1;
            cfg = 0;
            cap = n / 5 + 2;
        }
        13 => {
            name = "tiny_headers_cap_0";
            b = req.to_vec();
            b.extend(rep(b"a:b\r\n", n));
            b.extend_from_slice(b"\r\n");
            entry = Entry::R1;
            cfg = 0;
            cap = 0;
        }
        14 => {
            name = "long_target";
            b = b"GET /".to_vec();
            b.extend(rep(b"a", n));
            b.extend_from_slice(b" HTTP/1.1\r\n\r\n");
            entry = Entry::R1;
            cfg = 0;
            cap = 4;
        }
        15 => {
            name = "long_target_utf8";
            b = b"GET /".to_vec();
            b.extend(rep("é€".as_bytes(), n));
            b.extend_from_slice(b" HTTP/1.1\r\n\r\n");
            entry = Entry::R1;
            cfg = 0;
            cap = 4;
        }
        16 => {
            name = "long_name";
            b = req.to_vec();
            b.extend(rep(b"n", n));
            b.extend_from_slice(b": v\r\n\r\n");
            entry = Entry::R1;
            cfg = 0;
            cap = 4;
        }
        17 => {
            name = "long_reason";
            b = b"HTTP/1.1 200 ".to_vec();
            b.extend(rep(b"r \t", n));
            b.extend_from_slice(b"\r\n\r\n");
            entry = Entry::S1;
            cfg = 0;
            cap = 4;
        }
        18 => {
            name = "leading_empty_lines";
            b = rep(b"\r\n\n", n);
            b.extend_from_slice(req);
            b.extend_from_slice(b"\r\n");
            entry = Entry::R1;
            cfg = 0;
            cap = 4;
        }
        19 => {
            name = "chunk_extension";
            b = b"1f;".to_vec();
            b.extend(rep(b"e=\"x\"\n;", n));
            b.extend_from_slice(b"\r\n");
            entry = Entry::K;
            cfg = 0;
            cap = 0;
        }
        20 => {
            name = "multi_space_delims";
            b = b"GET".to_vec();
            b.extend(rep(b" ", n / 2));
            b.extend_from_slice(b"/");
            b.extend(rep(b" ", n / 2));
            b.extend_from_slice(b"HTTP/1.1\r\n\r\n");
            entry = Entry::R2;
            cfg = MSREQ;
            cap = 4;
        }
        21 => {
            name = "headers_parse_headers";
            b = rep(b"Name: value\r\n", n);
            b.extend_from_slice(b"\r\n");
            entry = Entry::H;
            cfg = 0;
            cap = n / 13 + 2;
        }
        22 => {
            name = "long_value_partial";
            b = req.to_vec();
            b.extend_from_slice(b"Name: ");
            b.extend(rep(b"v", n));
            entry = Entry::R1;
            cfg = 0;
            cap = 4;
        }
        23 => {
            name = "fold_ws_only_lines_after_value";
            b = resp.to_vec();
            b.extend_from_slice(b"F: a\r\n");
            b.extend(rep(b" \r\n", n));
            b.extend_from_slice(b"\r\n");
            entry = Entry::S2;
            cfg = FOLD;
            cap = 4;
        }
        24 => {
            name = "fold_tab_lines_lf_only";
            b = resp.to_vec();
            b.extend_from_slice(b"F: a\n");
            b.extend(rep(b"\t \n", n));
            b.extend_from_slice(b"\n");
            entry = Entry::S4;
            cfg = FOLD | SBF;
            cap = 4;
        }
        25 => {
            name = "many_headers_each_folded";
            b = resp.to_vec();
            b.extend(rep(b"H: v\r\n \r\n\tw\r\n", n));
            b.extend_from_slice(b"\r\n");
            entry = Entry::S2;
            cfg = FOLD;
            cap = n / 16 + 2;
        }
        26 => {
            name = "ignored_lines_with_long_tails";
            b = resp.to_vec();
            let mut unit = b"Bad Name: ".to_vec();
            unit.extend(std::iter::repeat(b'x').take(200));
            unit.extend_from_slice(b"\r\n");
            b.extend(rep(&unit, n));
            b.extend_from_slice(b"\r\n");
            entry = Entry::S2;
            cfg = IGNRESP | SA;
            cap = 4;
        }
        27 => {
            name = "value_obs_text_then_ctl_every_8";
            b = req.to_vec();
            b.extend_from_slice(b"Name: v");
            b.extend(rep(b"aaaaaa\xff\t", n));
            b.extend_from_slice(b"w\r\n\r\n");
            entry = Entry::R1;
            cfg = 0;
            cap = 4;
        }
        28 => {
            name = "long_method_token";
            b = rep(b"M", n);
            b.extend_from_slice(b" / HTTP/1.1\r\n\r\n");
            entry = Entry::R1;
            cfg = 0;
            cap = 4;
        }
        29 => {
            name = "empty_value_headers_lf_only";
            b = req.to_vec();
            b.extend(rep(b"a:\n", n));
            b.extend_from_slice(b"\n");
            entry = Entry::R3;
            cfg = 0;
            cap = n / 3 + 2;
        }
        30 => {
            name = "value_of_colons_and_percent";
            b = req.to_vec();
            b.extend_from_slice(b"Name: ");
            b.extend(rep(b":%:;,=", n));
            b.extend_from_slice(b"\r\n\r\n");
            entry = Entry::R1;
            cfg = 0;
            cap = 4;
        }
        31 => {
            name = "target_percent_and_obs_text";
            b = b"GET /".to_vec();
            b.extend(rep("%C3%A9\u{e9}\u{20ac}".as_bytes(), n));
            b.extend_from_slice(b" HTTP/1.1\r\n\r\n");
            entry = Entry::R4;
            cfg = MSREQ;
            cap = 4;
        }
        32 => {
            name = "long_reason_obs_text";
            b = b"HTTP/1.1 200 ".to_vec();
            b.extend(rep(b"r\xe9\xff ", n));
            b.extend_from_slice(b"\r\n\r\n");
            entry = Entry::S4;
            cfg = MSRESP;
            cap = 4;
        }
        33 => {
            name = "long_name_long_value_pairs";
            b = resp.to_vec();
            let mut unit = Vec::new();
            unit.extend(std::iter::repeat(b'N').take(120));
            unit.extend_from_slice(b": ");
            unit.extend(std::iter::repeat(b'v').take(300));
            unit.extend_from_slice(b"\r\n");
            b.extend(rep(&unit, n));
            b.extend_from_slice(b"\r\n");
            entry = Entry::S1;
            cfg = 0;
            cap = n / 400 + 2;
        }
        34 => {
            name = "spaces_after_name_then_ignored";
            b = resp.to_vec();
            b.extend(rep(b"Name \t x\r\n", n));
            b.extend_from_slice(b"\r\n");
            entry = Entry::S2;
            cfg = SA | IGNRESP;
            cap = 4;
        }
        35 => {
            name = "invalid_utf8_long_target_err";
            b = b"GET /".to_vec();
            b.extend(rep(b"\xc3\xa9\xe2\x82", n));
            b.extend_from_slice(b" HTTP/1.1\r\n\r\n");
            entry = Entry::R1;
            cfg = 0;
            cap = 4;
        }
        _ => {
            name = "fold_then_ignored";
            b = resp.to_vec();
            b.extend_from_slice(b"F: a\r\n");
            b.extend(rep(b" b\r\n", n / 2));
            b.extend(rep(b"(\r\n x\r\n", n / 2));
            b.extend_from_slice(b"\r\n");
            entry = Entry::S2;
            cfg = FOLD | IGNRESP;
            cap = 4;
        }
    }
    Scale { name, entry, cfg, buf: b, cap }
}

// ------------------------------------------------------------------ G8

/// Byte-string literals scraped from the repository's own tests at run time.
pub fn g8_literals() -> Vec<Vec<u8>> {
    let mut out = Vec::new();
    let repo = std::env::var("VERIF_REPO").unwrap_or_else(|_| "/repo".to_string());
    for f in ["src/lib.rs", "tests/uri.rs", "benches/parse.rs"] {
        let path = format!("{}/{}", repo, f);
        let src = match std::fs::read(&path) {
            Ok(s) => s,
            Err(_) => continue,
        };
        let mut i = 0;
        while i + 1 < src.len() {
            if src[i] == b'b' && src[i + 1] == b'"' && (i == 0 || !(src[i - 1].is_ascii_alphanumeric() || src[i - 1] == b'_')) {
                let mut j = i + 2;
                let mut lit = Vec::new();
                let mut ok = false;
                while j < src.len() {
                    let c = src[j];
                    if c == b'"' {
                        ok = true;
                        break;
                    }
                    if c == b'\\' && j + 1 < src.len() {
                        j += 1;
                        match src[j] {
                            b'r' => lit.push(b'\r'),
                            b'n' => lit.push(b'\n'),
                            b't' => lit.push(b'\t'),
                            b'0' => lit.push(0),
                            b'\\' => lit.push(b'\\'),
                            b'"' => lit.push(b'"'),
                            b'\'' => lit.push(b'\''),
                            b'x' if j + 2 < src.len() => {
                                let h = crate::types::unhex(std::str::from_utf8(&src[j + 1..j + 3]).unwrap_or("00"));
                                lit.push(h.first().copied().unwrap_or(0));
                                j += 2;
                            }
                            b'\n' => {
                                // line continuation: skip leading whitespace
                                while j + 1 < src.len() && (src[j + 1] == b' ' || src[j + 1] == b'\t' || src[j + 1] == b'\n') {
                                    j += 1;
                                }
                            }
                            x => lit.push(x),
                        }
                    } else {
                        lit.push(c);
                    }
                    j += 1;
                    if lit.len() > 4096 {
                        break;
                    }
                }
                if ok && !lit.is_empty() && lit.len() <= 4096 {
                    out.push(lit);
                }
                i = j + 1;
            } else {
                i += 1;
            }
        }
    }
    out.sort();
    out.dedup();
    out
}

/// Guess the kind of a literal.
pub fn guess_kind(b: &[u8]) -> Kind {
    let t: &[u8] = {
        let mut i = 0;
        while i < b.len() && (b[i] == b'\r' || b[i] == b'\n') {
            i += 1;
        }
        &b[i..]
    };
    if t.starts_with(b"HTTP/") {
        Kind::Resp
    } else if t.iter().take(24).any(|c| *c == b' ') && t.windows(5).any(|w| w == b"HTTP/") {
        Kind::Req
    } else if t.first().map_or(false, |c| c.is_ascii_hexdigit()) && t.len() < 24 && !t.contains(&b':') {
        Kind::Chunk
    } else {
        Kind::Hdr
    }
}

// ------------------------------------------------------------------ G9 targeted families

/// Folded header values: first line of every length, continuation lines of a few lengths, head
/// with and without a body (vector scanners re-enter on each continuation line with the earlier
/// lines, CRLF included, still behind the cursor), plus small instances of the G7 families.
fn g9_folds_and_families(kind: Kind, level: usize, f: &mut dyn FnMut(&[u8])) {
    let line: &[u8] = match kind {
        Kind::Req => b"GET / HTTP/1.1\r\n",
        Kind::Resp => b"HTTP/1.1 200 OK\r\n",
        _ => b"",
    };
    if kind == Kind::Chunk {
        return;
    }
    let amax = if level == 0 { 40 } else if level == 1 { 80 } else { 140 };
    for a in 0..=amax {
        for &b in &[0usize, 1, 5, 14, 29, 33] {
            for (k, tail) in [&b"\r\n"[..], b"\r\nbody-of-the-message-0123456789-0123456789", b"\r\nNext: x\r\n\r\n"].iter().enumerate() {
                if level == 0 && (a % 3 != 0 || k == 2) {
                    continue;
                }
                let mut m = line.to_vec();
                m.extend_from_slice(b"F: ");
                m.extend(std::iter::repeat(b'v').take(a));
                m.extend_from_slice(if (a + b) % 4 == 0 { b"\n" } else { b"\r\n" });
                m.push(if b % 2 == 0 { b' ' } else { b'\t' });
                m.extend(std::iter::repeat(b'w').take(b));
                m.extend_from_slice(b"\r\n");
                if k == 2 {
                    m.truncate(m.len() - 2);
                    m.extend_from_slice(b"\r\n \r\n\tlast");
                }
                m.extend_from_slice(tail);
                f(&m);
            }
        }
    }
    // every leading run over {CR, LF} up to a length bound (word-at-a-time skipping of empty lines)
    if kind != Kind::Hdr {
        let kmax = if level == 0 { 9 } else if level == 1 { 13 } else { 17 };
        let msg: &[u8] = if kind == Kind::Req { b"GET / HTTP/1.1\r\nH: v\r\n\r\n" } else { b"HTTP/1.1 200 OK\r\nH: v\r\n\r\n" };
        for k in 1..=kmax {
            for bits in 0..(1u32 << k) {
                let mut m: Vec<u8> = (0..k).map(|i| if bits >> i & 1 == 1 { b'\r' } else { b'\n' }).collect();
                m.extend_from_slice(msg);
                f(&m);
            }
        }
    }
    // many header lines (indices / counts beyond any fixed small array size)
    if kind != Kind::Hdr {
        let nmax = if level == 0 { 40 } else if level == 1 { 140 } else { 300 };
        let mut nh = 1;
        while nh <= nmax {
            let mut m = line.to_vec();
            for i in 0..nh {
                m.extend_from_slice(format!("h{}: v{}\r\n", i, i % 7).as_bytes());
            }
            m.extend_from_slice(b"\r\n");
            f(&m);
            nh += if nh < 70 { 1 } else { 7 };
        }
    }
    // a special byte in a LATE header of a many-header message (state accumulated across lines,
    // index- or count-dependent paths): two styles of earlier headers (short / long values)
    {
        let counts: &[usize] = if level == 0 { &[18] } else if level == 1 { &[17, 18, 33, 66] } else { &[9, 17, 18, 33, 34, 65, 66, 130, 260] };
        for &nh in counts {
            for style in 0..2usize {
                let mut js: Vec<usize> = vec![0, nh / 2, nh - 1, 16, 17, 32, 33, 64, 65, 128];
                js.retain(|j| *j < nh);
                js.sort();
                js.dedup();
                for &j in &js {
                    for slot in 0..5usize {
                        for &v in BOUNDARY.iter() {
                            let mut m = line.to_vec();
                            for i in 0..nh {
                                let name = format!("hdr{}", i);
                                let val = if style == 0 { format!("v{}", i % 10) } else { format!("value-{}-{}", i, "x".repeat(20 + i % 5)) };
                                let mut nb = name.into_bytes();
                                let mut vb = val.into_bytes();
                                if i == j {
                                    match slot {
                                        0 => nb[0] = v,
                                        1 => {
                                            let k = nb.len() / 2;
                                            nb[k] = v
                                        }
                                        2 => vb[0] = v,
                                        3 => vb[1] = v,
                                        _ => {
                                            let k = vb.len() - 1;
                                            vb[k] = v
                                        }
                                    }
                                }
                                m.extend_from_slice(&nb);
                                m.extend_from_slice(b": ");
                                m.extend_from_slice(&vb);
                                m.extend_from_slice(b"\r\n");
                            }
                            m.extend_from_slice(b"\r\n");
                            f(&m);
                        }
                    }
                }
            }
        }
    }
    // counter wrap points: repeated constructs exactly 255 / 256 / 257 (and 511..513) times (a u8 /
    // narrow counter or flag accumulator wraps there)
    {
        let counts: &[usize] = if level == 0 { &[256] } else if level == 1 { &[255, 256, 257, 512] } else { &[255, 256, 257, 511, 512, 513, 768, 1024] };
        for &c in counts {
            let mut push = |body: Vec<u8>| {
                let mut m = Vec::new();
                m.extend_from_slice(&body);
                f(&m);
            };
            let rep = |u: &[u8], c: usize| -> Vec<u8> { u.iter().cycle().take(u.len() * c).copied().collect() };
            match kind {
                Kind::Resp => {
                    // c obs-text bytes in the reason (alone and scattered), c spaces, c fold lines, c headers
                    for unit in [&b"\xe9"[..], b"a\xff", b"\xc3\xa9"] {
                        let mut m = b"HTTP/1.1 200 ".to_vec();
                        m.extend(rep(unit, c));
                        m.extend_from_slice(b"\r\nA: b\r\n\r\n");
                        push(m);
                    }
                    let mut m = b"HTTP/1.1".to_vec();
                    m.extend(rep(b" ", c));
                    m.extend_from_slice(b"200");
                    m.extend(rep(b" ", c));
                    m.extend_from_slice(b"OK\r\n\r\n");
                    push(m);
                    let mut m = b"HTTP/1.1 200 OK\r\nF: a\r\n".to_vec();
                    m.extend(rep(b" b\r\n", c));
                    m.extend_from_slice(b"\r\n");
                    push(m);
                    let mut m = b"HTTP/1.1 200 OK\r\n".to_vec();
                    m.extend(rep(b"Bad Name\r\n", c));
                    m.extend_from_slice(b"Good: y\r\n\r\n");
                    push(m);
                }
                Kind::Req => {
                    let mut m = rep(b"\r\n", c);
                    m.extend_from_slice(b"GET / HTTP/1.1\r\n\r\n");
                    push(m);
                    let mut m = b"GET".to_vec();
                    m.extend(rep(b" ", c));
                    m.extend_from_slice(b"/");
                    m.extend(rep(b" ", c));
                    m.extend_from_slice(b"HTTP/1.1\r\n\r\n");
                    push(m);
                    let mut m = b"GET /".to_vec();
                    m.extend(rep("\u{e9}".as_bytes(), c));
                    m.extend_from_slice(b" HTTP/1.1\r\n\r\n");
                    push(m);
                    let mut m = b"GET / HTTP/1.1\r\n".to_vec();
                    m.extend(rep(b"a:b\r\n", c));
                    m.extend_from_slice(b"\r\n");
                    push(m);
                    let mut m = b"GET / HTTP/1.1\r\nN:".to_vec();
                    m.extend(rep(b" \t", c));
                    m.extend_from_slice(b"v");
                    m.extend(rep(b"\t ", c));
                    m.extend_from_slice(b"\r\n\r\n");
                    push(m);
                }
                Kind::Hdr => {
                    let mut m = rep(b"a:b\n", c);
                    m.extend_from_slice(b"\n");
                    push(m);
                    let mut m = b"N: ".to_vec();
                    m.extend(rep(b"\xff", c));
                    m.extend_from_slice(b"\r\n\r\n");
                    push(m);
                }
                Kind::Chunk => {}
            }
        }
    }
    // whitespace prefixes / delimiters: every string over {SP, HTAB} up to length 5 in front of the
    // reason, in front of / behind a header value, and between method and target
    {
        let maxw = if level == 0 { 3 } else { 5 };
        for k in 0..=maxw {
            for bits in 0..(1u32 << k) {
                let ws: Vec<u8> = (0..k).map(|i| if bits >> i & 1 == 1 { b'\t' } else { b' ' }).collect();
                match kind {
                    Kind::Resp => {
                        for phrase in [&b"OK"[..], b"", b"a b"] {
                            let mut m = b"HTTP/1.1 200 ".to_vec();
                            m.extend_from_slice(&ws);
                            m.extend_from_slice(phrase);
                            m.extend_from_slice(b"\r\nA: b\r\n\r\n");
                            f(&m);
                        }
                        let mut m = b"HTTP/1.1 200 OK\r\nName".to_vec();
                        m.extend_from_slice(&ws);
                        m.extend_from_slice(b":");
                        m.extend_from_slice(&ws);
                        m.extend_from_slice(b"v\r\n\r\n");
                        f(&m);
                    }
                    Kind::Req => {
                        let mut m = b"GET ".to_vec();
                        m.extend_from_slice(&ws);
                        m.extend_from_slice(b"/p ");
                        m.extend_from_slice(&ws);
                        m.extend_from_slice(b"HTTP/1.1\r\n");
                        m.extend_from_slice(&ws);
                        m.extend_from_slice(b"H: v\r\n\r\n");
                        f(&m);
                    }
                    Kind::Hdr => {
                        let mut m = b"N:".to_vec();
                        m.extend_from_slice(&ws);
                        m.extend_from_slice(b"v");
                        m.extend_from_slice(&ws);
                        m.extend_from_slice(b"\r\n\r\n");
                        f(&m);
                    }
                    Kind::Chunk => {
                        let mut m = b"1f".to_vec();
                        m.extend_from_slice(&ws);
                        m.extend_from_slice(b";x\r\n");
                        f(&m);
                    }
                }
            }
        }
    }
    let sizes: &[usize] = if level == 0 { &[64, 300, 1500] } else if level == 1 { &[64, 300, 1500] } else { &[64, 300, 1500, 6000] };
    for fam in 0..G7_FAMILIES {
        for &n in sizes {
            let s = g7(fam, n);
            if Kind::of(s.entry) == kind && s.buf.len() <= 8000 {
                f(&s.buf);
            }
        }
    }
    // a few inputs beyond 64 KiB and beyond 65 535 header lines (narrow integer types for offsets,
    // lengths or counts would truncate here); results are compared like any other buffer
    if level >= 1 {
        for &(fam, n) in &[(12usize, 400_000usize), (14, 70_000), (16, 70_000), (17, 70_000), (18, 70_000), (8, 70_000), (21, 900_000), (0, 70_000), (2, 70_000)] {
            let s = g7(fam, n);
            if Kind::of(s.entry) == kind {
                f(&s.buf);
            }
        }
    }
}

/// Targeted families named by the property records: all 1000 status codes,
/// UTF-8 boundary sequences in targets straddling block boundaries, chunk
/// digit-count patterns. `level` 0 = sparse (tiny/small), 1 = quick, 2 = thorough.
pub fn g9_targeted(kind: Kind, level: usize, f: &mut dyn FnMut(&[u8])) {
    g9_folds_and_families(kind, level, f);
    match kind {
        Kind::Resp => {
            let step = if level == 0 { 37 } else { 1 };
            let mut code = 0;
            while code < 1000 {
                let c = format!("{:03}", code);
                for (i, tail) in [&b"\r\n"[..], b"\n", b" \r\n", b" OK\r\n", b"  two\n", b" r\xc3\xa9sum\xe9\r\n", b"\r\r\n", b"x\r\n"].iter().enumerate() {
                    if level < 2 && i >= 4 && code % 7 != 0 {
                        continue;
                    }
                    for sp in [&b" "[..], b"  "] {
                        let mut b = b"HTTP/1.1".to_vec();
                        b.extend_from_slice(sp);
                        b.extend_from_slice(c.as_bytes());
                        b.extend_from_slice(tail);
                        b.extend_from_slice(b"A: b\r\n\r\n");
                        f(&b);
                        if level < 2 {
                            break;
                        }
                    }
                }
                code += step;
            }
            // non-digit bytes in each code position
            for pos in 0..3 {
                for v in 0..=255u8 {
                    if v.is_ascii_digit() || (level == 0 && v % 16 != 0) {
                        continue;
                    }
                    let mut b = b"HTTP/1.0 204 No\r\n\r\n".to_vec();
                    b[9 + pos] = v;
                    f(&b);
                }
            }
        }
        Kind::Req => {
            // UTF-8 boundary sequences at the start, middle and end of targets whose
            // length straddles 8/16/32-byte blocks
            let seqs: [&[u8]; 22] = [
                b"\xc3\xa9", b"\xe2\x82\xac", b"\xf0\x9f\x98\x80", b"\xc2\x80", b"\xdf\xbf", b"\xe0\xa0\x80", b"\xef\xbf\xbf", b"\xf4\x8f\xbf\xbf",
                // invalid: overlong, surrogate, truncated, > U+10FFFF, stray continuation, bad lead
                b"\xc0\xaf", b"\xc1\xbf", b"\xe0\x9f\xbf", b"\xed\xa0\x80", b"\xed\xbf\xbf", b"\xf0\x8f\xbf\xbf", b"\xf4\x90\x80\x80", b"\xf5\x80\x80\x80",
                b"\x80", b"\xbf", b"\xc3", b"\xe2\x82", b"\xf0\x9f\x98", b"\xff",
            ];
            // code points that std string functions treat specially (White_Space, controls, BOM,
            // non-characters): a parser that post-processes the target as a &str must not alter it
            let special: [&str; 22] = ["\u{85}", "\u{a0}", "\u{1680}", "\u{2000}", "\u{2001}", "\u{2007}", "\u{200a}", "\u{2028}", "\u{2029}", "\u{202f}", "\u{205f}", "\u{3000}", "\u{feff}", "\u{200b}", "\u{200e}", "\u{ad}", "\u{80}", "\u{9f}", "\u{fffd}", "\u{e000}", "\u{130}", "\u{1e9e}"];
            for sp in special.iter() {
                for (pre, post) in [("/a", ""), ("", "/a"), ("/a", "b"), ("", ""), ("/", "\u{a0}")] {
                    let mut b = b"GET ".to_vec();
                    b.extend_from_slice(pre.as_bytes());
                    b.extend_from_slice(sp.as_bytes());
                    b.extend_from_slice(post.as_bytes());
                    let cut = b.len();
                    b.extend_from_slice(b" HTTP/1.1\r\nH: v\r\n\r\n");
                    f(&b);
                    f(&b[..cut + 1]);
                }
            }
            // every 2-byte sequence (and a stride of the 3-byte ones) at the end and start of a target
            for lead in 0xC2u8..=0xDF {
                for cont in 0x80u8..=0xBF {
                    if level == 0 && (cont % 8 != 0) {
                        continue;
                    }
                    for at_end in [true, false] {
                        let mut b = b"GET ".to_vec();
                        if at_end {
                            b.extend_from_slice(b"/p");
                        }
                        b.push(lead);
                        b.push(cont);
                        if !at_end {
                            b.extend_from_slice(b"/p");
                        }
                        b.extend_from_slice(b" HTTP/1.0\n\n");
                        f(&b);
                    }
                }
            }
            if level >= 1 {
                let step = if level == 1 { 3 } else { 1 };
                let mut n = 0usize;
                for lead in 0xE0u8..=0xEF {
                    for c1 in 0x80u8..=0xBF {
                        for c2 in 0x80u8..=0xBF {
                            n += 1;
                            if n % step != 0 {
                                continue;
                            }
                            let mut b = b"GET /".to_vec();
                            b.extend_from_slice(&[lead, c1, c2]);
                            b.extend_from_slice(b" HTTP/1.1\r\n\r\n");
                            f(&b);
                        }
                    }
                }
            }
            let lens: Vec<usize> = if level == 0 { vec![1, 8, 16, 33] } else if level == 1 { vec![1, 2, 7, 8, 9, 15, 16, 17, 31, 32, 33, 40] } else { (1..=70).collect() };
            for s in seqs.iter() {
                for &l in &lens {
                    if l < s.len() {
                        continue;
                    }
                    let pad = l - s.len();
                    let positions: Vec<usize> = if level == 2 { (0..=pad).collect() } else { vec![0, pad / 2, pad] };
                    for p in positions {
                        let mut b = b"GET ".to_vec();
                        b.extend(std::iter::repeat(b'a').take(p));
                        b.extend_from_slice(s);
                        b.extend(std::iter::repeat(b'z').take(pad - p));
                        b.extend_from_slice(b" HTTP/1.1\r\n\r\n");
                        f(&b);
                        // the same cut right after the sequence (target still in progress)
                        f(&b[..4 + p + s.len()]);
                    }
                }
            }
            // methods of every length around the 4/5-byte fast-path peeks
            for m in [&b"GET"[..], b"GE", b"G", b"GETX", b"GET\t", b"POST", b"POS", b"POSTX", b"POST\t", b"PUT", b"post", b"get", b"PATCH", b"DELETE"] {
                for tail in [&b" / HTTP/1.1\r\n\r\n"[..], b" /", b" ", b""] {
                    let mut b = m.to_vec();
                    b.extend_from_slice(tail);
                    f(&b);
                }
            }
        }
        Kind::Chunk => {
            let pats: [&dyn Fn(usize, usize) -> u8; 7] = [
                &|_, _| b'f',
                &|_, _| b'F',
                &|i, _| if i == 0 { b'1' } else { b'0' },
                &|i, _| if i == 0 { b'8' } else { b'0' },
                &|i, n| if i + 3 < n { b'0' } else { b'f' },
                &|i, _| [b'a', b'B', b'9', b'0', b'e', b'F'][i % 6],
                &|i, n| if i + 1 == n { b'1' } else { b'0' },
            ];
            let terms: [&[u8]; 10] = [b"\r\n", b"\n", b"\rX", b"", b" \r\n", b"\t \t\r\n", b";ext\r\n", b" ;a=b\r\n", b" 1\r\n", b";\rX\r\n"];
            for digits in 0..=20usize {
                for p in pats.iter() {
                    let d: Vec<u8> = (0..digits).map(|i| p(i, digits)).collect();
                    for t in terms.iter() {
                        let mut b = d.clone();
                        b.extend_from_slice(t);
                        f(&b);
                    }
                }
            }
            // 64-bit boundaries
            for v in [u64::MAX, u64::MAX - 1, 1u64 << 63, (1u64 << 60) - 1, 1u64 << 60, (1u64 << 60) + 1, 16u64.pow(15) - 1, 16u64.pow(15), 16u64.pow(15) + 1, 0, 1] {
                for s in [format!("{:x}\r\n", v), format!("{:X}\r\n", v), format!("{:016x}\r\n", v), format!("0{:016x}\r\n", v), format!("{:x}0\r\n", v)] {
                    f(s.as_bytes());
                }
            }
            // the last two digits of 16-digit (and 15-, 17-digit) sizes just below 2^64: every hex digit in
            // either case behind a run of f / F / mixed (overflow guards are written per digit class)
            const HEXD: &[u8] = b"0123456789abcdefABCDEF";
            for run in [13usize, 14, 15] {
                for style in 0..3 {
                    let pre: Vec<u8> = (0..run).map(|i| match style { 0 => b'f', 1 => b'F', _ => if i % 2 == 0 { b'f' } else { b'F' } }).collect();
                    for &x in HEXD {
                        for &y in HEXD {
                            for t in [&b"\r\n"[..], &b";x\r\n"[..]] {
                                let mut b = pre.clone();
                                b.push(x);
                                b.push(y);
                                b.extend_from_slice(t);
                                f(&b);
                            }
                        }
                    }
                }
            }
        }
        Kind::Hdr => {
            // OWS runs of 0..=40 before and after the value; 1..=70 headers per block
            let maxo = if level == 0 { 9 } else { 40 };
            for o in 0..=maxo {
                for ws in [b' ', b'\t'] {
                    let mut b = b"Name:".to_vec();
                    b.extend(std::iter::repeat(ws).take(o));
                    b.extend_from_slice(b"value");
                    b.extend(std::iter::repeat(ws).take((o * 7) % 41));
                    b.extend_from_slice(b"\r\nNext: x\r\n\r\n");
                    f(&b);
                }
            }
            let step = if level == 0 { 23 } else { 1 };
            let mut n = 1;
            while n <= 70 {
                let mut b = Vec::new();
                for i in 0..n {
                    b.extend_from_slice(format!("h{}: {}\r\n", i, "v".repeat(i % 19)).as_bytes());
                }
                b.extend_from_slice(b"\r\n");
                f(&b);
                n += step;
            }
        }
    }
}
