//! Direct scanner calls through the verification hooks (C12, C01).

use crate::spec;
use httparse::_benchable::Bytes;
use httparse::_verif as hv;

#[derive(Clone, Copy, PartialEq, Eq, Debug, Hash)]
pub enum Class {
    Target,
    Value,
    Name,
}

#[derive(Clone, Copy, PartialEq, Eq, Debug, Hash)]
pub enum Sc {
    SwarUri,
    SwarValue,
    SwarName,
    Sse42Uri,
    Sse42Value,
    Avx2Uri,
    Avx2Value,
    /// the parser's own dispatch with the runtime id forced to 1/2/3 (0 = as is)
    DispUri(u8),
    DispValue(u8),
    DispName,
    NeonUri,
    NeonValue,
    NeonName,
}

pub const ALL_SC: [Sc; 19] = [
    Sc::SwarUri,
    Sc::SwarValue,
    Sc::SwarName,
    Sc::Sse42Uri,
    Sc::Sse42Value,
    Sc::Avx2Uri,
    Sc::Avx2Value,
    Sc::DispUri(0),
    Sc::DispUri(1),
    Sc::DispUri(2),
    Sc::DispUri(3),
    Sc::DispValue(0),
    Sc::DispValue(1),
    Sc::DispValue(2),
    Sc::DispValue(3),
    Sc::DispName,
    Sc::NeonUri,
    Sc::NeonValue,
    Sc::NeonName,
];

impl Sc {
    pub fn class(self) -> Class {
        match self {
            Sc::SwarUri | Sc::Sse42Uri | Sc::Avx2Uri | Sc::DispUri(_) | Sc::NeonUri => Class::Target,
            Sc::SwarValue | Sc::Sse42Value | Sc::Avx2Value | Sc::DispValue(_) | Sc::NeonValue => Class::Value,
            Sc::SwarName | Sc::DispName | Sc::NeonName => Class::Name,
        }
    }
    pub fn name(self) -> String {
        format!("{:?}", self)
    }
    pub fn idx(self) -> usize {
        ALL_SC.iter().position(|s| *s == self).unwrap()
    }
    pub fn is_neon(self) -> bool {
        matches!(self, Sc::NeonUri | Sc::NeonValue | Sc::NeonName)
    }
}

pub fn in_class(c: Class, b: u8) -> bool {
    match c {
        Class::Target => spec::is_target(b),
        Class::Value => spec::is_value(b),
        Class::Name => spec::is_tchar(b),
    }
}

/// The statement's answer: first out-of-class byte, or the end.
pub fn expected(c: Class, buf: &[u8]) -> usize {
    buf.iter().position(|b| !in_class(c, *b)).unwrap_or(buf.len())
}

/// Run one scanner; None if it does not exist in this build / on this CPU. The call runs with the
/// cursor-operation fuel armed: a scanner that never stops panics (hook) and is reported as having
/// stopped at usize::MAX, which no oracle accepts, instead of hanging the worker.
pub fn run(sc: Sc, buf: &[u8]) -> Option<usize> {
    hv::set_fuel(16 * buf.len() as u64 + 4096);
    crate::obs::IN_MONITORED_CALL.with(|c| c.set(true));
    let r = std::panic::catch_unwind(std::panic::AssertUnwindSafe(|| run_inner(sc, buf)));
    crate::obs::IN_MONITORED_CALL.with(|c| c.set(false));
    hv::set_fuel(0);
    match r {
        Ok(v) => v,
        Err(_) => Some(usize::MAX),
    }
}

fn run_inner(sc: Sc, buf: &[u8]) -> Option<usize> {
    let mut b = Bytes::new(buf);
    let ok = match sc {
        Sc::SwarUri => {
            hv::scan::swar_uri(&mut b);
            true
        }
        Sc::SwarValue => {
            hv::scan::swar_value(&mut b);
            true
        }
        Sc::SwarName => {
            hv::scan::swar_name(&mut b);
            true
        }
        Sc::Sse42Uri => hv::scan::sse42_uri(&mut b),
        Sc::Sse42Value => hv::scan::sse42_value(&mut b),
        Sc::Avx2Uri => hv::scan::avx2_uri(&mut b),
        Sc::Avx2Value => hv::scan::avx2_value(&mut b),
        Sc::DispUri(id) => {
            if id != 0 && !hv::scan::set_runtime_feature(id) {
                false
            } else {
                hv::scan::dispatch_uri(&mut b);
                true
            }
        }
        Sc::DispValue(id) => {
            if id != 0 && !hv::scan::set_runtime_feature(id) {
                false
            } else {
                hv::scan::dispatch_value(&mut b);
                true
            }
        }
        Sc::DispName => {
            hv::scan::dispatch_name(&mut b);
            true
        }
        Sc::NeonUri => {
            if !crate::neon_src::NEON_SOURCE_OK {
                false
            } else {
                crate::neon_src::match_uri_vectored(&mut b);
                true
            }
        }
        Sc::NeonValue => {
            if !crate::neon_src::NEON_SOURCE_OK {
                false
            } else {
                crate::neon_src::match_header_value_vectored(&mut b);
                true
            }
        }
        Sc::NeonName => {
            if !crate::neon_src::NEON_SOURCE_OK {
                false
            } else {
                crate::neon_src::match_header_name_vectored(&mut b);
                true
            }
        }
    };
    if ok {
        Some(b.pos())
    } else {
        None
    }
}
