//! Shared vocabulary: entry points, configuration bits, results.

use httparse::ParserConfig;

// ---- configuration bits (7 booleans = 128 configs) ----
pub const SA: u8 = 1; // allow_spaces_after_header_name_in_responses
pub const FOLD: u8 = 2; // allow_obsolete_multiline_headers_in_responses
pub const MSREQ: u8 = 4; // allow_multiple_spaces_in_request_line_delimiters
pub const MSRESP: u8 = 8; // allow_multiple_spaces_in_response_status_delimiters
pub const SBF: u8 = 16; // allow_space_before_first_header_name
pub const IGNRESP: u8 = 32; // ignore_invalid_headers_in_responses
pub const IGNREQ: u8 = 64; // ignore_invalid_headers_in_requests

pub const REQ_RELEVANT: u8 = MSREQ | SBF | IGNREQ;
pub const RESP_RELEVANT: u8 = SA | FOLD | MSRESP | SBF | IGNRESP;

pub fn mkcfg(bits: u8) -> ParserConfig {
    let mut c = ParserConfig::default();
    // only the public setters are used
    c.allow_spaces_after_header_name_in_responses(bits & SA != 0);
    c.allow_obsolete_multiline_headers_in_responses(bits & FOLD != 0);
    c.allow_multiple_spaces_in_request_line_delimiters(bits & MSREQ != 0);
    c.allow_multiple_spaces_in_response_status_delimiters(bits & MSRESP != 0);
    c.allow_space_before_first_header_name(bits & SBF != 0);
    c.ignore_invalid_headers_in_responses(bits & IGNRESP != 0);
    c.ignore_invalid_headers_in_requests(bits & IGNREQ != 0);
    c
}

#[derive(Clone, Copy, PartialEq, Eq, Debug, Hash, PartialOrd, Ord)]
pub enum Entry {
    /// Request::parse
    R1,
    /// ParserConfig::parse_request
    R2,
    /// Request::parse_with_uninit_headers
    R3,
    /// ParserConfig::parse_request_with_uninit_headers
    R4,
    /// Response::parse
    S1,
    /// ParserConfig::parse_response
    S2,
    /// ParserConfig::parse_response_with_uninit_headers
    S4,
    /// parse_headers
    H,
    /// parse_chunk_size
    K,
}

pub const ALL_ENTRIES: [Entry; 9] = [
    Entry::R1,
    Entry::R2,
    Entry::R3,
    Entry::R4,
    Entry::S1,
    Entry::S2,
    Entry::S4,
    Entry::H,
    Entry::K,
];

impl Entry {
    pub fn is_req(self) -> bool {
        matches!(self, Entry::R1 | Entry::R2 | Entry::R3 | Entry::R4)
    }
    pub fn is_resp(self) -> bool {
        matches!(self, Entry::S1 | Entry::S2 | Entry::S4)
    }
    pub fn is_uninit(self) -> bool {
        matches!(self, Entry::R3 | Entry::R4 | Entry::S4)
    }
    pub fn takes_cfg(self) -> bool {
        matches!(self, Entry::R2 | Entry::R4 | Entry::S2 | Entry::S4)
    }
    pub fn name(self) -> &'static str {
        match self {
            Entry::R1 => "R1",
            Entry::R2 => "R2",
            Entry::R3 => "R3",
            Entry::R4 => "R4",
            Entry::S1 => "S1",
            Entry::S2 => "S2",
            Entry::S4 => "S4",
            Entry::H => "H",
            Entry::K => "K",
        }
    }
    pub fn from_name(s: &str) -> Option<Entry> {
        ALL_ENTRIES.iter().copied().find(|e| e.name() == s)
    }
    pub fn idx(self) -> usize {
        ALL_ENTRIES.iter().position(|e| *e == self).unwrap()
    }
    /// The configuration bits that this entry point actually honours.
    pub fn effective_cfg(self, cfg: u8) -> u8 {
        if self.takes_cfg() {
            cfg
        } else {
            0
        }
    }
}

#[derive(Clone, Copy, PartialEq, Eq, Debug, Hash, PartialOrd, Ord)]
pub enum ErrK {
    HeaderName,
    HeaderValue,
    NewLine,
    Status,
    Token,
    TooManyHeaders,
    Version,
    ChunkSize,
    /// the call did not return: panic payload class
    Panic,
}

impl ErrK {
    pub fn name(self) -> &'static str {
        match self {
            ErrK::HeaderName => "HeaderName",
            ErrK::HeaderValue => "HeaderValue",
            ErrK::NewLine => "NewLine",
            ErrK::Status => "Status",
            ErrK::Token => "Token",
            ErrK::TooManyHeaders => "TooManyHeaders",
            ErrK::Version => "Version",
            ErrK::ChunkSize => "InvalidChunkSize",
            ErrK::Panic => "PANIC",
        }
    }
    pub fn idx(self) -> usize {
        self as usize
    }
    pub fn from_httparse(e: httparse::Error) -> ErrK {
        match e {
            httparse::Error::HeaderName => ErrK::HeaderName,
            httparse::Error::HeaderValue => ErrK::HeaderValue,
            httparse::Error::NewLine => ErrK::NewLine,
            httparse::Error::Status => ErrK::Status,
            httparse::Error::Token => ErrK::Token,
            httparse::Error::TooManyHeaders => ErrK::TooManyHeaders,
            httparse::Error::Version => ErrK::Version,
        }
    }
}

#[derive(Clone, Copy, PartialEq, Eq, Debug, Hash)]
pub enum St {
    Complete(usize),
    Partial,
    Err(ErrK),
}

impl St {
    pub fn class(self) -> u8 {
        match self {
            St::Complete(_) => 0,
            St::Partial => 1,
            St::Err(_) => 2,
        }
    }
    pub fn is_complete(self) -> bool {
        matches!(self, St::Complete(_))
    }
    pub fn show(self) -> String {
        match self {
            St::Complete(n) => format!("Complete({})", n),
            St::Partial => "Partial".to_string(),
            St::Err(k) => format!("Err({})", k.name()),
        }
    }
    /// Index in an outcome histogram: 0 Complete, 1 Partial, 2.. error kinds.
    pub fn hist_idx(self) -> usize {
        match self {
            St::Complete(_) => 0,
            St::Partial => 1,
            St::Err(k) => 2 + k.idx(),
        }
    }
}

pub const HIST_NAMES: [&str; 11] = [
    "Complete",
    "Partial",
    "Err(HeaderName)",
    "Err(HeaderValue)",
    "Err(NewLine)",
    "Err(Status)",
    "Err(Token)",
    "Err(TooManyHeaders)",
    "Err(Version)",
    "Err(InvalidChunkSize)",
    "PANIC",
];

/// Where a returned slice lives relative to the buffer passed to the call.
#[derive(Clone, Copy, PartialEq, Eq, Debug, Hash)]
pub enum Loc {
    /// field is `None`
    None,
    /// non-empty, inside the buffer: (offset, len)
    In(u32, u32),
    /// zero-length, pointer inside [buf, buf+len]: offset
    EmptyIn(u32),
    /// zero-length, pointer elsewhere
    EmptyOut,
    /// non-empty and NOT inside the buffer: (content hash, len)
    Out(u64, u32),
    /// untouched sentinel of slot i
    Sent(u32),
}

impl Loc {
    /// Canonical form for comparing two results: where an empty slice points
    /// is not part of any property.
    pub fn canon(self) -> Loc {
        match self {
            Loc::EmptyIn(_) | Loc::EmptyOut => Loc::EmptyOut,
            x => x,
        }
    }
    pub fn is_empty_slice(self) -> bool {
        matches!(self, Loc::EmptyIn(_) | Loc::EmptyOut)
    }
    pub fn span(self) -> Option<(usize, usize)> {
        match self {
            Loc::In(o, l) => Some((o as usize, l as usize)),
            _ => None,
        }
    }
    pub fn from_span(s: (usize, usize)) -> Loc {
        if s.1 == 0 {
            Loc::EmptyOut
        } else {
            Loc::In(s.0 as u32, s.1 as u32)
        }
    }
    pub fn show(self, buf: &[u8]) -> String {
        match self {
            Loc::None => "None".into(),
            Loc::In(o, l) => {
                let (o, l) = (o as usize, l as usize);
                if o + l <= buf.len() {
                    format!("[{}+{}]{}", o, l, crate::report::esc(&buf[o..o + l]))
                } else {
                    format!("[{}+{}]<beyond>", o, l)
                }
            }
            Loc::EmptyIn(o) => format!("[{}+0]\"\"", o),
            Loc::EmptyOut => "\"\"".into(),
            Loc::Out(h, l) => format!("OUTSIDE(len={},hash={:x})", l, h),
            Loc::Sent(i) => format!("SENTINEL({})", i),
        }
    }
}

/// The result of one call, as far as the statements talk about it. Produced
/// both by the observer (from the real parser) and by the reference spec.
#[derive(Clone, PartialEq, Eq, Debug)]
pub struct Res {
    pub st: St,
    pub method: Loc,
    pub path: Loc,
    pub version: Option<u8>,
    pub code: Option<u16>,
    pub reason: Loc,
    /// Exposed headers on Complete (name, value); empty otherwise.
    pub headers: Vec<(Loc, Loc)>,
    /// chunk size (entry K, Complete only)
    pub size: u64,
}

impl Res {
    pub fn new(st: St) -> Res {
        Res { st, method: Loc::None, path: Loc::None, version: None, code: None, reason: Loc::None, headers: Vec::new(), size: 0 }
    }
    /// Canonicalised copy for result-vs-result comparison.
    pub fn canon(&self) -> Res {
        Res {
            st: self.st,
            method: self.method.canon(),
            path: self.path.canon(),
            version: self.version,
            code: self.code,
            reason: self.reason.canon(),
            headers: self.headers.iter().map(|(n, v)| (n.canon(), v.canon())).collect(),
            size: self.size,
        }
    }
    /// Equality "for all the statements care": on Complete everything, on
    /// Partial / Err only the status.
    pub fn same_outcome(&self, o: &Res) -> bool {
        if self.st != o.st {
            return false;
        }
        if !self.st.is_complete() {
            return true;
        }
        self.canon() == o.canon()
    }
    pub fn show(&self, buf: &[u8]) -> String {
        let mut s = self.st.show();
        if self.method != Loc::None {
            s += &format!(" method={}", self.method.show(buf));
        }
        if self.path != Loc::None {
            s += &format!(" path={}", self.path.show(buf));
        }
        if let Some(v) = self.version {
            s += &format!(" version={}", v);
        }
        if let Some(c) = self.code {
            s += &format!(" code={}", c);
        }
        if self.reason != Loc::None {
            s += &format!(" reason={}", self.reason.show(buf));
        }
        if self.st.is_complete() {
            if self.size != 0 {
                s += &format!(" size={}", self.size);
            }
            s += &format!(" headers({})=[", self.headers.len());
            for (i, (n, v)) in self.headers.iter().enumerate() {
                if i > 0 {
                    s += ", ";
                }
                if i >= 6 {
                    s += "...";
                    break;
                }
                s += &format!("{}: {}", n.show(buf), v.show(buf));
            }
            s += "]";
        }
        s
    }
    pub fn digest(&self) -> u64 {
        use crate::rng::mix;
        fn l(x: Loc) -> u64 {
            match x.canon() {
                Loc::None => 1,
                Loc::In(o, l) => 2 ^ ((o as u64) << 8) ^ ((l as u64) << 36),
                Loc::EmptyIn(_) | Loc::EmptyOut => 3,
                Loc::Out(h, l) => 4 ^ h ^ ((l as u64) << 40),
                Loc::Sent(i) => 5 ^ ((i as u64) << 8),
            }
        }
        let mut h = match self.st {
            St::Complete(n) => mix(11, n as u64),
            St::Partial => 12,
            St::Err(k) => mix(13, k.idx() as u64),
        };
        h = mix(h, l(self.method));
        h = mix(h, l(self.path));
        h = mix(h, self.version.map(|v| v as u64 + 1).unwrap_or(0));
        h = mix(h, self.code.map(|v| v as u64 + 1).unwrap_or(0));
        h = mix(h, l(self.reason));
        h = mix(h, self.size);
        if self.st.is_complete() {
            for (n, v) in &self.headers {
                h = mix(h, l(*n));
                h = mix(h, l(*v));
            }
        }
        h
    }
}

/// Forced scanner backend for one call (through hook H4), when the build has
/// runtime dispatch.
#[derive(Clone, Copy, PartialEq, Eq, Debug, Hash)]
pub enum Backend {
    /// whatever the build selects (cold start / compile-time)
    AsIs,
    Avx2,
    Sse42,
    Scalar,
}

impl Backend {
    pub fn id(self) -> u8 {
        match self {
            Backend::AsIs => 0,
            Backend::Avx2 => 1,
            Backend::Sse42 => 2,
            Backend::Scalar => 3,
        }
    }
    pub fn from_id(i: u8) -> Backend {
        match i {
            1 => Backend::Avx2,
            2 => Backend::Sse42,
            3 => Backend::Scalar,
            _ => Backend::AsIs,
        }
    }
    pub fn name(self) -> &'static str {
        match self {
            Backend::AsIs => "asis",
            Backend::Avx2 => "avx2",
            Backend::Sse42 => "sse42",
            Backend::Scalar => "scalar",
        }
    }
}

pub fn hex(b: &[u8]) -> String {
    let mut s = String::with_capacity(b.len() * 2);
    for x in b {
        s.push_str(&format!("{:02x}", x));
    }
    s
}

pub fn unhex(s: &str) -> Vec<u8> {
    let s = s.as_bytes();
    let mut v = Vec::with_capacity(s.len() / 2);
    let d = |c: u8| -> u8 {
        match c {
            b'0'..=b'9' => c - b'0',
            b'a'..=b'f' => c - b'a' + 10,
            b'A'..=b'F' => c - b'A' + 10,
            _ => 0,
        }
    };
    let mut i = 0;
    while i + 1 < s.len() {
        v.push(d(s[i]) << 4 | d(s[i + 1]));
        i += 2;
    }
    v
}
