//! Counting global allocator (engine E7). Every allocator entry is counted;
//! the monitors read the counter immediately before and after a parser call.

use std::alloc::{GlobalAlloc, Layout, System};
use std::sync::atomic::{AtomicU64, Ordering::Relaxed};

pub static ALLOC_EVENTS: AtomicU64 = AtomicU64::new(0);
pub static ALLOC_BYTES: AtomicU64 = AtomicU64::new(0);

thread_local! {
    /// per-thread event count (for measurements made while other threads run)
    static TL_EVENTS: std::cell::Cell<u64> = const { std::cell::Cell::new(0) };
}

#[inline]
fn tl_bump() {
    let _ = TL_EVENTS.try_with(|c| c.set(c.get() + 1));
}

/// Allocator events performed by the calling thread.
pub fn thread_events() -> u64 {
    TL_EVENTS.try_with(|c| c.get()).unwrap_or(0)
}

pub struct Counting;

// SAFETY: delegates to System; only adds counting.
unsafe impl GlobalAlloc for Counting {
    unsafe fn alloc(&self, l: Layout) -> *mut u8 {
        ALLOC_EVENTS.fetch_add(1, Relaxed);
        tl_bump();
        ALLOC_BYTES.fetch_add(l.size() as u64, Relaxed);
        System.alloc(l)
    }
    unsafe fn dealloc(&self, p: *mut u8, l: Layout) {
        ALLOC_EVENTS.fetch_add(1, Relaxed);
        tl_bump();
        System.dealloc(p, l)
    }
    unsafe fn alloc_zeroed(&self, l: Layout) -> *mut u8 {
        ALLOC_EVENTS.fetch_add(1, Relaxed);
        tl_bump();
        ALLOC_BYTES.fetch_add(l.size() as u64, Relaxed);
        System.alloc_zeroed(l)
    }
    unsafe fn realloc(&self, p: *mut u8, l: Layout, n: usize) -> *mut u8 {
        ALLOC_EVENTS.fetch_add(1, Relaxed);
        tl_bump();
        ALLOC_BYTES.fetch_add(n as u64, Relaxed);
        System.realloc(p, l, n)
    }
}

#[global_allocator]
static GLOBAL: Counting = Counting;

#[inline]
pub fn events() -> u64 {
    ALLOC_EVENTS.load(Relaxed)
}
