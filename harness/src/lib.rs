//! Runtime-monitoring harness for httparse (see /verif/DESIGN.md).
//!
//! No external dependencies. Everything the monitors observe goes through
//! `obs::observe` (one monitored call of a public entry point) or
//! `scan::*` (one direct scanner call through the verification hooks).
#![allow(clippy::all)]
#![allow(dead_code)]

pub mod rng;
pub mod types;
pub mod spec;
pub mod arena;
pub mod obs;
pub mod gen;
pub mod report;
pub mod oracles;
pub mod props;
pub mod units;
pub mod run;
pub mod special;
pub mod canary;
pub mod fuzzglue;
pub mod history;
pub mod neon_emu;
pub mod neon_src;
pub mod scan;
pub mod alloc_count;

pub use types::*;
