//! Bit-exact model of the aarch64 NEON intrinsics used by httparse's
//! src/simd/neon.rs, written from the Arm ARM pseudo-code (little-endian lane
//! order). This file is the trusted base of engine E10. `vld1q_u8` performs a
//! genuine 16-byte read so that guard pages / Miri still see an over-read.
#![allow(non_camel_case_types, clippy::missing_safety_doc)]

#[derive(Clone, Copy, Debug, PartialEq, Eq)]
pub struct uint8x16_t(pub [u8; 16]);
#[derive(Clone, Copy, Debug, PartialEq, Eq)]
pub struct uint64x2_t(pub [u64; 2]);

#[inline]
pub unsafe fn vld1q_u8(p: *const u8) -> uint8x16_t {
    uint8x16_t(core::ptr::read_unaligned(p as *const [u8; 16]))
}
#[inline]
pub unsafe fn vdupq_n_u8(x: u8) -> uint8x16_t {
    uint8x16_t([x; 16])
}
#[inline]
fn map2(a: uint8x16_t, b: uint8x16_t, f: impl Fn(u8, u8) -> u8) -> uint8x16_t {
    let mut r = [0u8; 16];
    for i in 0..16 {
        r[i] = f(a.0[i], b.0[i]);
    }
    uint8x16_t(r)
}
#[inline]
pub unsafe fn vandq_u8(a: uint8x16_t, b: uint8x16_t) -> uint8x16_t {
    map2(a, b, |x, y| x & y)
}
#[inline]
pub unsafe fn vorrq_u8(a: uint8x16_t, b: uint8x16_t) -> uint8x16_t {
    map2(a, b, |x, y| x | y)
}
#[inline]
pub unsafe fn veorq_u8(a: uint8x16_t, b: uint8x16_t) -> uint8x16_t {
    map2(a, b, |x, y| x ^ y)
}
/// BIC: a AND NOT b
#[inline]
pub unsafe fn vbicq_u8(a: uint8x16_t, b: uint8x16_t) -> uint8x16_t {
    map2(a, b, |x, y| x & !y)
}
#[inline]
pub unsafe fn vmvnq_u8(a: uint8x16_t) -> uint8x16_t {
    map2(a, a, |x, _| !x)
}
/// CMEQ: all-ones lane where equal
#[inline]
pub unsafe fn vceqq_u8(a: uint8x16_t, b: uint8x16_t) -> uint8x16_t {
    map2(a, b, |x, y| if x == y { 0xFF } else { 0 })
}
/// CMHS (unsigned a <= b  ==  b >= a)
#[inline]
pub unsafe fn vcleq_u8(a: uint8x16_t, b: uint8x16_t) -> uint8x16_t {
    map2(a, b, |x, y| if x <= y { 0xFF } else { 0 })
}
#[inline]
pub unsafe fn vcgeq_u8(a: uint8x16_t, b: uint8x16_t) -> uint8x16_t {
    map2(a, b, |x, y| if x >= y { 0xFF } else { 0 })
}
/// USHR by immediate (1..=8)
#[inline]
pub unsafe fn vshrq_n_u8(a: uint8x16_t, n: i32) -> uint8x16_t {
    // neon.rs uses the legacy call syntax `vshrq_n_u8(x, 4)`
    map2(a, a, |x, _| if n >= 8 { 0 } else { x >> n })
}
/// TBL with one table register: index >= 16 yields 0
#[inline]
pub unsafe fn vqtbl1q_u8(t: uint8x16_t, idx: uint8x16_t) -> uint8x16_t {
    let mut r = [0u8; 16];
    for i in 0..16 {
        let k = idx.0[i] as usize;
        r[i] = if k < 16 { t.0[k] } else { 0 };
    }
    uint8x16_t(r)
}
#[inline]
pub unsafe fn vreinterpretq_u64_u8(a: uint8x16_t) -> uint64x2_t {
    let mut lo = [0u8; 8];
    let mut hi = [0u8; 8];
    lo.copy_from_slice(&a.0[0..8]);
    hi.copy_from_slice(&a.0[8..16]);
    uint64x2_t([u64::from_le_bytes(lo), u64::from_le_bytes(hi)])
}
#[inline]
pub unsafe fn vgetq_lane_u64<const N: i32>(a: uint64x2_t) -> u64 {
    a.0[N as usize]
}
