//! Oracles: pure functions from observations to verdicts. Each is a direct
//! transcription of sentences of one property record; where a sentence leaves
//! room, the weaker reading is taken (DESIGN section 6, interpretation notes).

use crate::gen::Kind;
use crate::obs::{Obs, Slot};
use crate::spec::{self, is_tchar, is_ws, CR, HT, LF, SP};
use crate::types::*;

pub struct Fail {
    pub rule: &'static str,
    pub detail: String,
}

fn fail(rule: &'static str, detail: String) -> Option<Fail> {
    Some(Fail { rule, detail })
}

// ------------------------------------------------------------------ C03

/// Independent linear scan: offset just past the first empty line after the
/// start line (for Hdr: the first empty line). `ws_empty_before`: with
/// allow_space_before_first_header_name, whitespace-only lines that start
/// before this offset also count as empty (None = no carve-out).
pub fn first_empty_line_end(kind: Kind, buf: &[u8], ws_empty_before: Option<usize>) -> Option<usize> {
    let mut i = 0;
    if kind != Kind::Hdr {
        // leading empty lines
        loop {
            if buf.get(i) == Some(&CR) && buf.get(i + 1) == Some(&LF) {
                i += 2;
            } else if buf.get(i) == Some(&LF) {
                i += 1;
            } else {
                break;
            }
        }
        // the start line ends at the first LF
        let p = buf[i..].iter().position(|c| *c == LF)?;
        i += p + 1;
    }
    loop {
        let p = buf[i..].iter().position(|c| *c == LF)?;
        let line = &buf[i..i + p + 1];
        if line == b"\n" || line == b"\r\n" {
            return Some(i + p + 1);
        }
        if let Some(lim) = ws_empty_before {
            if i < lim {
                let body = if line.ends_with(b"\r\n") { &line[..line.len() - 2] } else { &line[..line.len() - 1] };
                if !body.is_empty() && body.iter().all(|c| is_ws(*c)) {
                    return Some(i + p + 1);
                }
            }
        }
        i += p + 1;
    }
}

pub fn c03(kind: Kind, buf: &[u8], o: &Obs) -> Option<Fail> {
    let cfg = o.entry.effective_cfg(o.cfg);
    match o.res.st {
        St::Complete(n) => {
            if n > buf.len() {
                return fail("n_exceeds_len", format!("Complete({}) > len {}", n, buf.len()));
            }
            if kind == Kind::Chunk {
                let want = buf.windows(2).position(|w| w == b"\r\n").map(|p| p + 2);
                if want != Some(n) {
                    return fail("chunk_n_not_past_first_crlf", format!("n={} first CRLF ends at {:?}", n, want));
                }
                return None;
            }
            // strictly empty line
            let strict = first_empty_line_end(kind, buf, None);
            let sbf_exact = cfg & SBF != 0 && kind != Kind::Hdr && !(kind == Kind::Resp && cfg & FOLD != 0);
            if strict == Some(n) && !sbf_exact {
                return None;
            }
            if cfg & SBF != 0 && kind != Kind::Hdr {
                let lim = match o.res.headers.first() {
                    Some((Loc::In(off, _), _)) => *off as usize,
                    _ => usize::MAX,
                };
                let fold = kind == Kind::Resp && cfg & FOLD != 0;
                if !fold {
                    // without folding every LF-terminated line is a line of its own, so the carve-out
                    // is exact: the head ends at the first line that is strictly empty, or
                    // whitespace-only and located before the first stored header
                    let want = first_empty_line_end(kind, buf, Some(lim));
                    if want == Some(n) {
                        return None;
                    }
                    return fail("n_not_at_first_empty_line", format!("n={} first empty (or, with space-before-first-header, whitespace-only) line ends at {:?}", n, want));
                }
                // with folding enabled too, a whitespace-led line after a header line is a continuation;
                // the statement does not spell out this interplay, so the weaker reading is taken:
                // n may also be the end of a whitespace-only line that starts before the first stored
                // header and before the first strictly empty line
                if strict.map_or(true, |e| n < e) && n >= 1 && buf[n - 1] == LF {
                    let ls = buf[..n - 1].iter().rposition(|c| *c == LF).map_or(0, |p| p + 1);
                    let line = &buf[ls..n];
                    let body = if line.ends_with(b"\r\n") { &line[..line.len() - 2] } else { &line[..line.len() - 1] };
                    if ls < lim && !body.is_empty() && body.iter().all(|c| is_ws(*c)) {
                        return None;
                    }
                }
            }
            return fail("n_not_at_first_empty_line", format!("n={} first strictly empty line ends at {:?}", n, strict));
        }
        St::Partial => {
            if kind == Kind::Chunk {
                if buf.windows(2).any(|w| w == b"\r\n") {
                    return fail("partial_with_crlf_present", "chunk Partial but CRLF in buffer".into());
                }
                return None;
            }
            if let Some(e) = first_empty_line_end(kind, buf, None) {
                return fail("partial_with_empty_line_present", format!("Partial but empty line ends at {}", e));
            }
            None
        }
        St::Err(_) => None,
    }
}

// ------------------------------------------------------------------ C04

pub fn c04(buf: &[u8], o: &Obs) -> Option<Fail> {
    let r = &o.res;
    // every non-empty slice inside the buffer, whatever the outcome
    for (nm, l) in [("method", r.method), ("path", r.path), ("reason", r.reason)] {
        if let Loc::Out(_, len) = l {
            return fail("field_outside_buffer", format!("{} (len {}) not inside the buffer", nm, len));
        }
        if let Loc::Sent(_) = l {
            return fail("field_outside_buffer", format!("{} points into sentinel memory", nm));
        }
    }
    for (i, (n, v)) in r.headers.iter().enumerate() {
        for (nm, l) in [("name", *n), ("value", *v)] {
            match l {
                Loc::Out(..) | Loc::Sent(_) | Loc::None => return fail("header_outside_buffer", format!("exposed header {} {} = {:?}", i, nm, l)),
                _ => {}
            }
        }
        if n.is_empty_slice() {
            return fail("header_name_empty", format!("exposed header {} has empty name", i));
        }
    }
    // slots of the backing array (also on Partial / Err): previous content or a header from this buffer
    for (i, s) in o.slots.iter().enumerate() {
        match s {
            Slot::Sent | Slot::Poison => {}
            Slot::Hdr(..) if s.from_buf() => {}
            Slot::Hdr(n, v) => return fail("slot_outside_buffer", format!("slot {} holds name={:?} value={:?}", i, n, v)),
        }
    }
    // uninit entry points must not expose the (possibly uninitialised) array after Partial / Err:
    // whatever `headers` then shows was not parsed from this buffer
    if o.entry.is_uninit() && !r.st.is_complete() && o.panic.is_none() && !o.hdr_at_own {
        return fail("headers_exposed_after_failure", format!("uninit entry point, outcome {}, but `headers` no longer is the value's own slice (len {})", r.st.show(), o.hdr_len));
    }
    if let St::Complete(n) = r.st {
        // inside the consumed head, in input order, non-overlapping
        let mut seq: Vec<(&str, usize, usize)> = Vec::new();
        if let Some((a, l)) = r.method.span() {
            seq.push(("method", a, l));
        }
        if let Some((a, l)) = r.path.span() {
            seq.push(("path", a, l));
        }
        if let Some((a, l)) = r.reason.span() {
            seq.push(("reason", a, l));
        }
        let fixed = seq.len();
        for (n_, v_) in &r.headers {
            if let Some((a, l)) = n_.span() {
                seq.push(("name", a, l));
            }
            if let Some((a, l)) = v_.span() {
                seq.push(("value", a, l));
            }
        }
        let mut prev_end = 0usize;
        let mut prev_nm = "";
        for (k, (nm, a, l)) in seq.iter().enumerate() {
            if a + l > n {
                return fail("field_beyond_consumed_head", format!("{} [{}+{}] beyond n={}", nm, a, l, n));
            }
            if k > 0 && *a < prev_end {
                return fail("fields_out_of_order_or_overlapping", format!("{} [{}+{}] starts before end {} of {}", nm, a, l, prev_end, prev_nm));
            }
            if *nm == "name" && k >= fixed && k > 0 {
                // a header name sits on a later line than whatever precedes it
                if !buf[prev_end.min(*a)..*a].contains(&LF) && prev_nm != "" {
                    return fail("name_not_on_later_line", format!("no LF between {} ending {} and name at {}", prev_nm, prev_end, a));
                }
            }
            prev_end = a + l;
            prev_nm = nm;
        }
    }
    None
}

// ------------------------------------------------------------------ C05

pub fn c05(kind: Kind, buf: &[u8], o: &Obs) -> Option<Fail> {
    let r = &o.res;
    if !o.strs_utf8 {
        return fail("str_not_utf8", "a &str handed out is not valid UTF-8".into());
    }
    // names in written slots are &str too (also on Partial / Err)
    for (i, s) in o.slots.iter().enumerate() {
        if let Slot::Hdr(Loc::In(a, l), _) = s {
            let nm = &buf[*a as usize..(*a + *l) as usize];
            if std::str::from_utf8(nm).is_err() {
                return fail("slot_name_not_utf8", format!("slot {} name not UTF-8", i));
            }
        }
    }
    let n = match r.st {
        St::Complete(n) => n,
        _ => return None,
    };
    if n > buf.len() {
        return fail("n_exceeds_len", format!("n={} len={}", n, buf.len()));
    }
    let get = |l: Loc| -> &[u8] {
        match l.span() {
            Some((a, len)) if a + len <= buf.len() => &buf[a..a + len],
            _ => &[],
        }
    };
    let cfg = o.entry.effective_cfg(o.cfg);
    match kind {
        Kind::Req => {
            let m = get(r.method);
            if m.is_empty() || !m.iter().all(|b| is_tchar(*b)) {
                return fail("method_not_token", format!("method={}", r.method.show(buf)));
            }
            let p = get(r.path);
            if p.is_empty() || !p.iter().all(|b| spec::is_target(*b)) || !spec::utf8_valid(p) {
                return fail("path_not_clean", format!("path={}", r.path.show(buf)));
            }
            if !matches!(r.version, Some(0) | Some(1)) {
                return fail("version_not_0_or_1", format!("{:?}", r.version));
            }
        }
        Kind::Resp => {
            if !matches!(r.version, Some(0) | Some(1)) {
                return fail("version_not_0_or_1", format!("{:?}", r.version));
            }
            let code = match r.code {
                Some(c) => c,
                None => return fail("code_missing", "Complete without code".into()),
            };
            // three ASCII digits somewhere in the status line whose value is the code: located
            // as the first three bytes after "HTTP/1.x" and the following SP run
            let mut i = 0;
            while i < n && (buf[i] == CR || buf[i] == LF) {
                i += 1;
            }
            i += 8;
            while i < n && buf[i] == SP {
                i += 1;
            }
            if i + 3 > n || !buf[i..i + 3].iter().all(|b| b.is_ascii_digit()) {
                return fail("code_not_three_digits", format!("bytes at {} are not three digits", i));
            }
            let v = (buf[i] - b'0') as u16 * 100 + (buf[i + 1] - b'0') as u16 * 10 + (buf[i + 2] - b'0') as u16;
            if v != code {
                return fail("code_value_wrong", format!("code={} digits say {}", code, v));
            }
            if r.reason == Loc::None {
                return fail("reason_missing", "Complete without reason".into());
            }
            let rs = get(r.reason);
            if !rs.iter().all(|b| *b == HT || *b == SP || (0x21..=0x7E).contains(b)) {
                return fail("reason_not_clean", format!("reason={}", r.reason.show(buf)));
            }
        }
        Kind::Hdr => {}
        Kind::Chunk => return None,
    }
    let fold_ok = cfg & FOLD != 0 && kind == Kind::Resp;
    for (i, (nl, vl)) in r.headers.iter().enumerate() {
        let nm = get(*nl);
        if nm.is_empty() || !nm.iter().all(|b| is_tchar(*b)) {
            return fail("header_name_not_token", format!("header {} name={}", i, nl.show(buf)));
        }
        let v = get(*vl);
        if let (Some(f), Some(l)) = (v.first(), v.last()) {
            if is_ws(*f) || is_ws(*l) {
                return fail("value_not_trimmed", format!("header {} value={}", i, vl.show(buf)));
            }
        }
        for (k, b) in v.iter().enumerate() {
            let ok = match *b {
                HT | 0x20..=0x7E | 0x80..=0xFF => true,
                LF if fold_ok => v.get(k + 1).map_or(false, |c| is_ws(*c)),
                CR if fold_ok => v.get(k + 1) == Some(&LF),
                _ => false,
            };
            if !ok {
                return fail("value_not_clean", format!("header {} value={} byte {:#x} at {}", i, vl.show(buf), b, k));
            }
        }
    }
    // the consumed head never contains NUL or a bare CR
    for k in 0..n {
        if buf[k] == 0 {
            return fail("nul_in_consumed_head", format!("NUL at {} (n={})", k, n));
        }
        if buf[k] == CR && (k + 1 >= n || buf[k + 1] != LF) {
            return fail("bare_cr_in_consumed_head", format!("bare CR at {} (n={})", k, n));
        }
    }
    None
}

// ------------------------------------------------------------------ spec comparison (C06, C07, C08, C09, C14)

/// What to compare with the spec.
#[derive(Clone, Copy)]
pub struct Cmp {
    pub class_only_err: bool, // Err kind is C10's business
    pub start_line: bool,
    pub headers: bool,
}

pub fn vs_spec(buf: &[u8], o: &Obs, s: &Res, cmp: Cmp) -> Option<Fail> {
    let r = &o.res;
    let same_st = match (r.st, s.st) {
        (St::Err(a), St::Err(b)) => cmp.class_only_err || a == b,
        (a, b) => a == b,
    };
    if !same_st {
        return fail("status_differs_from_spec", format!("spec={} impl={}", s.st.show(), r.st.show()));
    }
    if !r.st.is_complete() {
        return None;
    }
    if cmp.start_line {
        if r.method.canon() != s.method.canon() || r.path.canon() != s.path.canon() || r.version != s.version || r.code != s.code || r.reason.canon() != s.reason.canon() {
            return fail("start_line_fields_differ_from_spec", format!("spec: {} | impl: {}", s.show(buf), r.show(buf)));
        }
        if r.size != s.size {
            return fail("chunk_size_differs_from_spec", format!("spec={} impl={}", s.size, r.size));
        }
    }
    if cmp.headers {
        let a: Vec<(Loc, Loc)> = r.headers.iter().map(|(n, v)| (n.canon(), v.canon())).collect();
        let b: Vec<(Loc, Loc)> = s.headers.iter().map(|(n, v)| (n.canon(), v.canon())).collect();
        if a != b {
            return fail("headers_differ_from_spec", format!("spec: {} | impl: {}", s.show(buf), r.show(buf)));
        }
    }
    None
}

// ------------------------------------------------------------------ C10

pub fn c10(o: &Obs, s: &Res) -> Option<Fail> {
    if let St::Err(k) = s.st {
        if o.res.st != St::Err(k) {
            return fail("error_kind_differs", format!("spec=Err({}) impl={}", k.name(), o.res.st.show()));
        }
    } else if o.res.st == St::Err(ErrK::TooManyHeaders) {
        return fail("too_many_headers_without_surplus_line", format!("spec={} impl=Err(TooManyHeaders)", s.st.show()));
    }
    None
}

// ------------------------------------------------------------------ C15 / C16 / C18 / C02: result equality

pub fn same_result(rule: &'static str, buf: &[u8], a: &Res, b: &Res, what: &str) -> Option<Fail> {
    if a.same_outcome(b) {
        None
    } else {
        fail(rule, format!("{}: {} vs {}", what, a.show(buf), b.show(buf)))
    }
}

// ------------------------------------------------------------------ C17

/// `ample`: the same entry/config/buffer observed with ample capacity.
pub fn c17(buf: &[u8], o: &Obs, ample: &Obs) -> Option<Fail> {
    c17_ref(buf, o, ample, None)
}

/// `ref_completed`: the number of header lines the reference model considers completely received
/// (with ample capacity) before its terminal event, when available. The parser's own ample-capacity
/// run must agree with it (a parser that stores a line it has not completely received is
/// self-consistent, so only the independent count can tell).
pub fn c17_ref(buf: &[u8], o: &Obs, ample: &Obs, ref_completed: Option<usize>) -> Option<Fail> {
    let n = o.cap;
    let kind = Kind::of(o.entry);
    if kind == Kind::Chunk {
        return None;
    }
    // headers the ample run completed before its terminal event
    let w_own = match ample.res.st {
        St::Complete(_) => ample.hdr_len,
        _ => ample.slots.iter().take_while(|s| matches!(s, Slot::Hdr(..))).count(),
    };
    if let Some(r) = ref_completed {
        if r != w_own && ample.panic.is_none() {
            return fail("headers_completed_differs_from_reference", format!("ample-capacity run ({}) stored {} headers before its terminal event, the reference model counts {} completely received header lines", ample.res.st.show(), w_own, r));
        }
    }
    let w = ref_completed.unwrap_or(w_own);
    // capacity law
    if w >= n + 1 {
        if o.res.st != St::Err(ErrK::TooManyHeaders) {
            return fail("capacity_law", format!("ample run completed {} headers, capacity {}, but outcome {}", w, n, o.res.st.show()));
        }
    } else {
        if o.res.st != ample.res.st {
            return fail("capacity_law", format!("ample run: {} (completed {}), capacity {}: {}", ample.res.st.show(), w, n, o.res.st.show()));
        }
        if o.res.st.is_complete() && !o.res.same_outcome(&ample.res) {
            return fail("capacity_law_fields", format!("ample: {} | cap {}: {}", ample.res.show(buf), n, o.res.show(buf)));
        }
    }
    match o.res.st {
        St::Complete(_) => {
            let c = o.hdr_len;
            if c > n {
                return fail("count_exceeds_capacity", format!("headers.len()={} capacity={}", c, n));
            }
            if !o.hdr_at_array {
                return fail("headers_not_callers_array", "headers does not start at the caller's array".into());
            }
            if o.exposed_poison {
                return fail("uninit_slot_exposed", "an exposed header still holds the poison pattern".into());
            }
            if o.res.headers.len() != c {
                return fail("count_mismatch", format!("{} vs {}", o.res.headers.len(), c));
            }
            // count = number of header lines accepted = the ample run's list (the same parser, ample room)
            if ample.res.st.is_complete() && ample.res.headers.len() != c {
                return fail("count_differs_from_ample_run", format!("{} vs {}", c, ample.res.headers.len()));
            }
            for (i, s) in o.slots.iter().enumerate() {
                if i < c {
                    if !s.from_buf() {
                        return fail("exposed_slot_not_from_buffer", format!("slot {} = {:?}", i, s));
                    }
                } else if o.entry.is_uninit() {
                    // beyond the count the uninit array may hold poison or parser-written headers, never exposed
                } else if *s != Slot::Sent {
                    return fail("slot_beyond_count_modified", format!("slot {} (count {}) = {:?}", i, c, s));
                }
            }
        }
        _ => {
            if kind == Kind::Hdr {
                for (i, s) in o.slots.iter().enumerate() {
                    if !(*s == Slot::Sent || s.from_buf()) {
                        return fail("slot_garbage_after_failure", format!("slot {} = {:?}", i, s));
                    }
                }
            } else if o.entry.is_uninit() {
                if o.panic.is_none() && (!o.hdr_at_own || !o.own_intact) {
                    return fail("uninit_entry_touched_headers_on_failure", format!("headers still own array: {}, own array intact: {}", o.hdr_at_own, o.own_intact));
                }
            } else {
                if o.panic.is_none() && (!o.hdr_at_array || o.hdr_len != n) {
                    return fail("headers_not_restored_on_failure", format!("at array: {} len {} (capacity {})", o.hdr_at_array, o.hdr_len, n));
                }
                for (i, s) in o.slots.iter().enumerate() {
                    if !(*s == Slot::Sent || s.from_buf()) {
                        return fail("slot_garbage_after_failure", format!("slot {} = {:?}", i, s));
                    }
                }
            }
        }
    }
    None
}

// ------------------------------------------------------------------ C11 exemption

/// Exemption (a): the request target is in progress and cannot be extended
/// to valid UTF-8. Decided on the buffer alone.
pub fn target_in_progress_bad_utf8(buf: &[u8], ms: bool) -> bool {
    let mut i = 0;
    loop {
        if buf.get(i) == Some(&CR) && buf.get(i + 1) == Some(&LF) {
            i += 2;
        } else if buf.get(i) == Some(&LF) {
            i += 1;
        } else {
            break;
        }
    }
    // method
    let m0 = i;
    while i < buf.len() && is_tchar(buf[i]) {
        i += 1;
    }
    if i == m0 || buf.get(i) != Some(&SP) {
        return false;
    }
    i += 1;
    if ms {
        while buf.get(i) == Some(&SP) {
            i += 1;
        }
    }
    let t = &buf[i..];
    if t.iter().any(|b| !spec::is_target(*b)) {
        return false; // target already terminated (or broken): not "in progress"
    }
    !spec::utf8_extendable(t)
}
