//! Glue for the libFuzzer engine (E12) and for replaying its artifacts.
use crate::arena::Place;
use crate::obs::Call;
use crate::props::{ample_cap, lf_count, Tier, W};
use crate::types::*;
use std::cell::RefCell;

thread_local! {
    static WW: RefCell<Option<W>> = RefCell::new(None);
}

pub fn decode(data: &[u8]) -> Option<(Call, &[u8])> {
    if data.len() < 3 {
        return None;
    }
    let buf = &data[3..];
    let entry = ALL_ENTRIES[(data[0] % 9) as usize];
    let cfg = data[1] & 127;
    let k = lf_count(buf);
    let cap = match data[2] % 8 {
        0 => 0,
        1 => 1,
        2 => 2,
        3 => k,
        4 => k + 1,
        5 => (data[2] / 8) as usize,
        _ => ample_cap(buf),
    };
    let backend = Backend::from_id(1 + (data[0] / 9) % 3);
    Some((Call { entry, cfg, cap, hplace: Place::End, backend }, buf))
}

/// Applicable to the property?
fn applies(prop: &str, entry: Entry) -> bool {
    use crate::gen::Kind;
    let kind = Kind::of(entry);
    match prop {
        "C06" => kind == Kind::Req,
        "C07" => kind == Kind::Resp,
        "C09" => kind == Kind::Chunk,
        "C08" | "C10" | "C14" | "C04" | "C05" | "C17" | "C16" => kind != Kind::Chunk,
        "C15" => kind == Kind::Req || kind == Kind::Resp,
        _ => true,
    }
}

/// Run the per-call oracle of VERIF_FUZZ_PROP on one fuzzer input.
pub fn fuzz_one(data: &[u8]) -> Option<String> {
    let (mut call, buf) = decode(data)?;
    if buf.len() > 4096 {
        return None;
    }
    WW.with(|ww| {
        let mut ww = ww.borrow_mut();
        if ww.is_none() {
            std::env::set_var("VERIF_ARENA", "heap");
            let prop = std::env::var("VERIF_FUZZ_PROP").unwrap_or_else(|_| "C01".to_string());
            *ww = Some(W::new(&prop, Tier::Quick, 0, 0, 1));
        }
        let w = ww.as_mut().unwrap();
        if !applies(&w.prop, call.entry) {
            return None;
        }
        if w.prop == "C08" {
            call.cfg = 0;
        }
        if matches!(w.prop.as_str(), "C02" | "C11" | "C15") && buf.len() > 200 {
            return None;
        }
        if !w.can_force {
            call.backend = Backend::AsIs;
        }
        // keep the statistics small in a long-running process
        if w.st.distinct.len() > 100_000 {
            w.st.distinct.clear();
        }
        let bad = crate::units::unit_call(w, call, buf, Place::End);
        if bad {
            let v = w.st.violations.pop();
            w.st.violations.clear();
            return v.map(|v| format!("property={} rule={} {}", v.property, v.rule, v.detail));
        }
        None
    })
}
