//! Executable reference specification, written from the property statements
//! (C03, C05-C11, C14, C17) and RFC 7230 -- not from httparse's source. It is
//! a byte-at-a-time state machine over an explicit index; it never looks at
//! more than the current byte, except where a statement requires one byte of
//! look-ahead (CR must be followed by LF; with obsolete folding the byte after
//! an end of line decides whether the header is finished).
//!
//! Stepper semantics: running out of input in a live state => Partial; an
//! undefined transition in a state labelled with element k => Err(k);
//! reaching the accepting state after byte n => Complete(n).

use crate::types::*;

pub const CR: u8 = b'\r';
pub const LF: u8 = b'\n';
pub const SP: u8 = b' ';
pub const HT: u8 = b'\t';

/// RFC 7230 tchar
pub fn is_tchar(b: u8) -> bool {
    matches!(b,
        b'a'..=b'z' | b'A'..=b'Z' | b'0'..=b'9' |
        b'!' | b'#' | b'$' | b'%' | b'&' | b'\'' | b'*' | b'+' | b'-' | b'.' | b'^' | b'_' | b'`' | b'|' | b'~')
}
/// request-target byte class of the statements: 0x21-0x7E and 0x80-0xFF
pub fn is_target(b: u8) -> bool {
    matches!(b, 0x21..=0x7E | 0x80..=0xFF)
}
/// header value byte class: HTAB, 0x20-0x7E, 0x80-0xFF
pub fn is_value(b: u8) -> bool {
    matches!(b, 0x09 | 0x20..=0x7E | 0x80..=0xFF)
}
pub fn is_ws(b: u8) -> bool {
    b == SP || b == HT
}

#[derive(Clone, Copy, Debug, Default, PartialEq, Eq)]
pub struct HOpts {
    pub sa: bool,
    pub fold: bool,
    pub sbf: bool,
    pub ign: bool,
}

impl HOpts {
    pub fn for_request(cfg: u8) -> HOpts {
        HOpts { sa: false, fold: false, sbf: cfg & SBF != 0, ign: cfg & IGNREQ != 0 }
    }
    pub fn for_response(cfg: u8) -> HOpts {
        HOpts { sa: cfg & SA != 0, fold: cfg & FOLD != 0, sbf: cfg & SBF != 0, ign: cfg & IGNRESP != 0 }
    }
}

/// Extra facts the spec derives, used by C10/C17 oracles.
#[derive(Clone, Debug, Default)]
pub struct SpecInfo {
    /// headers completed (stored) before the terminal event
    pub stored: usize,
    /// number of header lines dropped by the ignore option
    pub dropped: usize,
    /// offset of the first offending byte (for Err results)
    pub err_at: Option<usize>,
}

pub type Span = (usize, usize); // (offset, len)

/// Leading empty lines. Returns Ok(index of first non-EOL byte) or the
/// terminal status.
fn skip_empty_lines(buf: &[u8], mut i: usize, info: &mut SpecInfo) -> Result<usize, St> {
    loop {
        match buf.get(i) {
            None => return Err(St::Partial),
            Some(&CR) => match buf.get(i + 1) {
                None => return Err(St::Partial),
                Some(&LF) => i += 2,
                Some(_) => {
                    info.err_at = Some(i + 1);
                    return Err(St::Err(ErrK::NewLine));
                }
            },
            Some(&LF) => i += 1,
            Some(_) => return Ok(i),
        }
    }
}

/// `HTTP/1.` ( `0` | `1` ), byte at a time. Returns (minor, next index).
fn version(buf: &[u8], i: usize, info: &mut SpecInfo) -> Result<(u8, usize), St> {
    const LIT: &[u8; 7] = b"HTTP/1.";
    for k in 0..7 {
        match buf.get(i + k) {
            None => return Err(St::Partial),
            Some(&b) if b == LIT[k] => {}
            Some(_) => {
                info.err_at = Some(i + k);
                return Err(St::Err(ErrK::Version));
            }
        }
    }
    match buf.get(i + 7) {
        None => Err(St::Partial),
        Some(b'0') => Ok((0, i + 8)),
        Some(b'1') => Ok((1, i + 8)),
        Some(_) => {
            info.err_at = Some(i + 7);
            Err(St::Err(ErrK::Version))
        }
    }
}

/// (continuation bytes, allowed range of the first continuation byte) for a
/// lead byte, per RFC 3629; None for bytes that cannot start a sequence.
fn utf8_lead(b: u8) -> Option<(usize, u8, u8)> {
    match b {
        0xC2..=0xDF => Some((1, 0x80, 0xBF)),
        0xE0 => Some((2, 0xA0, 0xBF)),
        0xE1..=0xEC | 0xEE..=0xEF => Some((2, 0x80, 0xBF)),
        0xED => Some((2, 0x80, 0x9F)),
        0xF0 => Some((3, 0x90, 0xBF)),
        0xF1..=0xF3 => Some((3, 0x80, 0xBF)),
        0xF4 => Some((3, 0x80, 0x8F)),
        _ => None,
    }
}

/// Walks `s`; returns (valid so far, ended inside a well-formed truncated sequence).
fn utf8_walk(s: &[u8]) -> (bool, bool) {
    let mut i = 0;
    while i < s.len() {
        let b = s[i];
        if b < 0x80 {
            i += 1;
            continue;
        }
        let (n, lo, hi) = match utf8_lead(b) {
            Some(x) => x,
            None => return (false, false),
        };
        for k in 1..=n {
            match s.get(i + k) {
                None => return (false, true),
                Some(&c) => {
                    let (l, h) = if k == 1 { (lo, hi) } else { (0x80, 0xBF) };
                    if c < l || c > h {
                        return (false, false);
                    }
                }
            }
        }
        i += n + 1;
    }
    (true, false)
}

/// Strict UTF-8 validity (RFC 3629), written out independently of std.
pub fn utf8_valid(s: &[u8]) -> bool {
    utf8_walk(s).0
}

/// Can `s` (the bytes of a request target received so far) still be extended
/// to valid UTF-8? True iff it is valid, or invalid only because its last
/// sequence is truncated but well-formed so far.
pub fn utf8_extendable(s: &[u8]) -> bool {
    let (v, t) = utf8_walk(s);
    v || t
}

pub fn request(buf: &[u8], cfg: u8, cap: usize) -> (Res, SpecInfo) {
    let mut info = SpecInfo::default();
    let mut res = Res::new(St::Partial);
    let st = request_inner(buf, cfg, cap, &mut res, &mut info);
    finish(res, st, info)
}

fn finish(mut res: Res, st: St, info: SpecInfo) -> (Res, SpecInfo) {
    res.st = st;
    if !st.is_complete() {
        // the spec only commits to fields on Complete
        res.method = Loc::None;
        res.path = Loc::None;
        res.version = None;
        res.code = None;
        res.reason = Loc::None;
        res.headers.clear();
    }
    (res, info)
}

fn request_inner(buf: &[u8], cfg: u8, cap: usize, res: &mut Res, info: &mut SpecInfo) -> St {
    let ms = cfg & MSREQ != 0;
    let mut i = match skip_empty_lines(buf, 0, info) {
        Ok(i) => i,
        Err(st) => return st,
    };
    // method = 1*tchar, then SP                                    [Token]
    let m0 = i;
    loop {
        match buf.get(i) {
            None => return St::Partial,
            Some(&b) if is_tchar(b) => i += 1,
            Some(&SP) if i > m0 => break,
            Some(_) => {
                info.err_at = Some(i);
                return St::Err(ErrK::Token);
            }
        }
    }
    res.method = Loc::from_span((m0, i - m0));
    i += 1;
    if ms {
        while buf.get(i) == Some(&SP) {
            i += 1;
        }
    }
    // target = 1*(%x21-7E / %x80-FF), valid UTF-8 judged at its SP  [Token]
    let t0 = i;
    loop {
        match buf.get(i) {
            None => return St::Partial,
            Some(&b) if is_target(b) => i += 1,
            Some(&SP) if i > t0 => break,
            Some(_) => {
                info.err_at = Some(i);
                return St::Err(ErrK::Token);
            }
        }
    }
    if !utf8_valid(&buf[t0..i]) {
        info.err_at = Some(i);
        return St::Err(ErrK::Token);
    }
    res.path = Loc::from_span((t0, i - t0));
    i += 1;
    if ms {
        while buf.get(i) == Some(&SP) {
            i += 1;
        }
    }
    // HTTP-version                                                 [Version]
    let (minor, ni) = match version(buf, i, info) {
        Ok(x) => x,
        Err(st) => return st,
    };
    res.version = Some(minor);
    i = ni;
    // CRLF | LF                                                    [NewLine]
    match buf.get(i) {
        None => return St::Partial,
        Some(&CR) => match buf.get(i + 1) {
            None => return St::Partial,
            Some(&LF) => i += 2,
            Some(_) => {
                info.err_at = Some(i + 1);
                return St::Err(ErrK::NewLine);
            }
        },
        Some(&LF) => i += 1,
        Some(_) => {
            info.err_at = Some(i);
            return St::Err(ErrK::NewLine);
        }
    }
    let mut hs = Vec::new();
    let st = header_block(buf, i, HOpts::for_request(cfg), cap, &mut hs, info);
    res.headers = hs.iter().map(|(n, v)| (Loc::from_span(*n), Loc::from_span(*v))).collect();
    st
}

pub fn response(buf: &[u8], cfg: u8, cap: usize) -> (Res, SpecInfo) {
    let mut info = SpecInfo::default();
    let mut res = Res::new(St::Partial);
    let st = response_inner(buf, cfg, cap, &mut res, &mut info);
    finish(res, st, info)
}

fn response_inner(buf: &[u8], cfg: u8, cap: usize, res: &mut Res, info: &mut SpecInfo) -> St {
    let ms = cfg & MSRESP != 0;
    let mut i = match skip_empty_lines(buf, 0, info) {
        Ok(i) => i,
        Err(st) => return st,
    };
    let (minor, ni) = match version(buf, i, info) {
        Ok(x) => x,
        Err(st) => return st,
    };
    res.version = Some(minor);
    i = ni;
    // SP after the version                                         [Version]
    match buf.get(i) {
        None => return St::Partial,
        Some(&SP) => i += 1,
        Some(_) => {
            info.err_at = Some(i);
            return St::Err(ErrK::Version);
        }
    }
    if ms {
        while buf.get(i) == Some(&SP) {
            i += 1;
        }
    }
    // 3DIGIT                                                       [Status]
    let mut code: u16 = 0;
    for k in 0..3 {
        match buf.get(i + k) {
            None => return St::Partial,
            Some(&b) if b.is_ascii_digit() => code = code * 10 + (b - b'0') as u16,
            Some(_) => {
                info.err_at = Some(i + k);
                return St::Err(ErrK::Status);
            }
        }
    }
    res.code = Some(code);
    i += 3;
    // line end, or SP reason line end                              [Status]
    match buf.get(i) {
        None => return St::Partial,
        Some(&SP) => {
            i += 1;
            if ms {
                while buf.get(i) == Some(&SP) {
                    i += 1;
                }
            }
            let r0 = i;
            let mut obs = false;
            loop {
                match buf.get(i) {
                    None => return St::Partial,
                    Some(&CR) => match buf.get(i + 1) {
                        None => return St::Partial,
                        Some(&LF) => {
                            res.reason = if obs { Loc::EmptyOut } else { Loc::from_span((r0, i - r0)) };
                            i += 2;
                            break;
                        }
                        Some(_) => {
                            info.err_at = Some(i + 1);
                            return St::Err(ErrK::Status);
                        }
                    },
                    Some(&LF) => {
                        res.reason = if obs { Loc::EmptyOut } else { Loc::from_span((r0, i - r0)) };
                        i += 1;
                        break;
                    }
                    Some(&b) if b == HT || b == SP || (0x21..=0x7E).contains(&b) => i += 1,
                    Some(&b) if b >= 0x80 => {
                        obs = true;
                        i += 1;
                    }
                    Some(_) => {
                        info.err_at = Some(i);
                        return St::Err(ErrK::Status);
                    }
                }
            }
        }
        Some(&CR) => match buf.get(i + 1) {
            None => return St::Partial,
            Some(&LF) => {
                res.reason = Loc::EmptyOut;
                i += 2;
            }
            Some(_) => {
                info.err_at = Some(i + 1);
                return St::Err(ErrK::Status);
            }
        },
        Some(&LF) => {
            res.reason = Loc::EmptyOut;
            i += 1;
        }
        Some(_) => {
            info.err_at = Some(i);
            return St::Err(ErrK::Status);
        }
    }
    let mut hs = Vec::new();
    let st = header_block(buf, i, HOpts::for_response(cfg), cap, &mut hs, info);
    res.headers = hs.iter().map(|(n, v)| (Loc::from_span(*n), Loc::from_span(*v))).collect();
    st
}

pub fn headers(buf: &[u8], o: HOpts, cap: usize) -> (Res, SpecInfo) {
    let mut info = SpecInfo::default();
    let mut res = Res::new(St::Partial);
    let mut hs = Vec::new();
    let st = header_block(buf, 0, o, cap, &mut hs, &mut info);
    res.headers = hs.iter().map(|(n, v)| (Loc::from_span(*n), Loc::from_span(*v))).collect();
    finish(res, st, info)
}

/// The header block starting at `start`. Offsets reported are absolute in
/// `buf`; Complete(n) is the absolute offset just past the terminating line.
pub fn header_block(buf: &[u8], start: usize, o: HOpts, cap: usize, out: &mut Vec<(Span, Span)>, info: &mut SpecInfo) -> St {
    let mut i = start;
    // What to do with an offence of kind k whose first offending byte is at p.
    // Returns Ok(next line start) when the line is dropped, else the terminal status.
    fn offence(buf: &[u8], mut p: usize, k: ErrK, o: HOpts, info: &mut SpecInfo) -> Result<usize, St> {
        if !o.ign {
            info.err_at = Some(p);
            return Err(St::Err(k));
        }
        loop {
            match buf.get(p) {
                None => return Err(St::Partial),
                Some(&CR) => match buf.get(p + 1) {
                    None => return Err(St::Partial),
                    Some(&LF) => {
                        info.dropped += 1;
                        return Ok(p + 2);
                    }
                    Some(_) => {
                        info.err_at = Some(p + 1);
                        return Err(St::Err(k));
                    }
                },
                Some(&LF) => {
                    info.dropped += 1;
                    return Ok(p + 1);
                }
                Some(&0) => {
                    info.err_at = Some(p);
                    return Err(St::Err(k));
                }
                Some(_) => p += 1,
            }
        }
    }
    'line: loop {
        // ---- line start ----
        let b = match buf.get(i) {
            None => return St::Partial,
            Some(&b) => b,
        };
        if b == CR {
            return match buf.get(i + 1) {
                None => St::Partial,
                Some(&LF) => St::Complete(i + 2),
                Some(_) => {
                    info.err_at = Some(i + 1);
                    St::Err(ErrK::NewLine)
                }
            };
        }
        if b == LF {
            return St::Complete(i + 1);
        }
        if !is_tchar(b) {
            if o.sbf && info.stored == 0 && is_ws(b) {
                while buf.get(i).map_or(false, |&c| is_ws(c)) {
                    i += 1;
                }
                continue 'line;
            }
            match offence(buf, i, ErrK::HeaderName, o, info) {
                Ok(n) => {
                    i = n;
                    continue 'line;
                }
                Err(st) => return st,
            }
        }
        // ---- name = 1*tchar ----
        let n0 = i;
        while buf.get(i).map_or(false, |&c| is_tchar(c)) {
            i += 1;
        }
        let name: Span = (n0, i - n0);
        match buf.get(i) {
            None => return St::Partial,
            Some(b':') => i += 1,
            Some(&c) if o.sa && is_ws(c) => {
                while buf.get(i).map_or(false, |&c| is_ws(c)) {
                    i += 1;
                }
                match buf.get(i) {
                    None => return St::Partial,
                    Some(b':') => i += 1,
                    Some(_) => match offence(buf, i, ErrK::HeaderName, o, info) {
                        Ok(n) => {
                            i = n;
                            continue 'line;
                        }
                        Err(st) => return st,
                    },
                }
            }
            Some(_) => match offence(buf, i, ErrK::HeaderName, o, info) {
                Ok(n) => {
                    i = n;
                    continue 'line;
                }
                Err(st) => return st,
            },
        }
        // ---- after the colon: OWS, then value or end of line ----
        let value: Span;
        'ows: loop {
            let b = match buf.get(i) {
                None => return St::Partial,
                Some(&b) => b,
            };
            if is_ws(b) {
                i += 1;
                continue 'ows;
            }
            if is_value(b) {
                // ---- value lines ----
                let v0 = i;
                loop {
                    while buf.get(i).map_or(false, |&c| is_value(c)) {
                        i += 1;
                    }
                    let eol = match buf.get(i) {
                        None => return St::Partial,
                        Some(&CR) => match buf.get(i + 1) {
                            None => return St::Partial,
                            Some(&LF) => 2,
                            Some(_) => {
                                // a CR not followed by LF is never ignorable
                                info.err_at = Some(i + 1);
                                return St::Err(ErrK::HeaderValue);
                            }
                        },
                        Some(&LF) => 1,
                        Some(_) => match offence(buf, i, ErrK::HeaderValue, o, info) {
                            Ok(n) => {
                                i = n;
                                continue 'line;
                            }
                            Err(st) => return st,
                        },
                    };
                    i += eol;
                    if o.fold {
                        match buf.get(i) {
                            None => return St::Partial,
                            Some(&c) if is_ws(c) => continue, // continuation line: raw bytes kept
                            Some(_) => {}
                        }
                    }
                    // trim trailing SP / HTAB / CR / LF
                    let mut e = i - eol;
                    while e > v0 && matches!(buf[e - 1], SP | HT | CR | LF) {
                        e -= 1;
                    }
                    value = (v0, e - v0);
                    break 'ows;
                }
            }
            // end of line with no value so far
            if b == CR {
                match buf.get(i + 1) {
                    None => return St::Partial,
                    Some(&LF) => i += 2,
                    Some(_) => {
                        info.err_at = Some(i + 1);
                        return St::Err(ErrK::HeaderValue);
                    }
                }
            } else if b == LF {
                i += 1;
            } else {
                match offence(buf, i, ErrK::HeaderValue, o, info) {
                    Ok(n) => {
                        i = n;
                        continue 'line;
                    }
                    Err(st) => return st,
                }
            }
            if o.fold {
                match buf.get(i) {
                    None => return St::Partial,
                    Some(&c) if is_ws(c) => continue 'ows,
                    Some(_) => {}
                }
            }
            value = (i, 0);
            break 'ows;
        }
        // ---- header complete ----
        if info.stored == cap {
            info.err_at = Some(i.saturating_sub(1));
            return St::Err(ErrK::TooManyHeaders);
        }
        out.push((name, value));
        info.stored += 1;
    }
}

/// chunk-size line: 1*16HEXDIG *(SP/HTAB) [ ";" *(any but CR) ] CRLF
pub fn chunk(buf: &[u8]) -> Res {
    #[derive(PartialEq)]
    enum S {
        Size,
        Lws,
        Ext,
    }
    let mut s = S::Size;
    let mut count = 0u32;
    let mut size: u128 = 0;
    let mut i = 0;
    let err = Res::new(St::Err(ErrK::ChunkSize));
    loop {
        let b = match buf.get(i) {
            None => return Res::new(St::Partial),
            Some(&b) => b,
        };
        let hexv = match b {
            b'0'..=b'9' => Some(b - b'0'),
            b'a'..=b'f' => Some(b - b'a' + 10),
            b'A'..=b'F' => Some(b - b'A' + 10),
            _ => None,
        };
        match s {
            S::Size => {
                if let Some(v) = hexv {
                    if count == 16 {
                        return err;
                    }
                    count += 1;
                    size = size * 16 + v as u128;
                    i += 1;
                    continue;
                }
                if count == 0 {
                    return err;
                }
                match b {
                    CR => {}
                    b';' => {
                        s = S::Ext;
                        i += 1;
                        continue;
                    }
                    SP | HT => {
                        s = S::Lws;
                        i += 1;
                        continue;
                    }
                    _ => return err,
                }
            }
            S::Lws => match b {
                SP | HT => {
                    i += 1;
                    continue;
                }
                b';' => {
                    s = S::Ext;
                    i += 1;
                    continue;
                }
                CR => {}
                _ => return err,
            },
            S::Ext => {
                if b != CR {
                    i += 1;
                    continue;
                }
            }
        }
        // b == CR
        return match buf.get(i + 1) {
            None => Res::new(St::Partial),
            Some(&LF) => {
                if size > u64::MAX as u128 {
                    return err; // cannot happen with <= 16 digits
                }
                let mut r = Res::new(St::Complete(i + 2));
                r.size = size as u64;
                r
            }
            Some(_) => err,
        };
    }
}

/// The spec for an arbitrary entry point.
pub fn run(entry: Entry, buf: &[u8], cfg: u8, cap: usize) -> (Res, SpecInfo) {
    let cfg = entry.effective_cfg(cfg);
    match entry {
        Entry::R1 | Entry::R2 | Entry::R3 | Entry::R4 => request(buf, cfg, cap),
        Entry::S1 | Entry::S2 | Entry::S4 => response(buf, cfg, cap),
        Entry::H => headers(buf, HOpts::default(), cap),
        Entry::K => (chunk(buf), SpecInfo::default()),
    }
}
