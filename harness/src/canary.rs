//! Positive controls: each monitor must be able to fire.
use crate::arena::Place;
use crate::gen::Kind;
use crate::obs::{Ctx, Obs, Slot};
use crate::oracles as orc;
use crate::types::*;

/// Reads one byte past a buffer placed at the end of the arena: must die with SIGSEGV.
pub fn overread() -> ! {
    let mut ctx = Ctx::new();
    let b = ctx.place(b"abcdefgh", Place::End);
    // SAFETY: deliberately out of bounds -- this is the canary
    let x = unsafe { std::ptr::read_volatile(b.as_ptr().add(b.len())) };
    println!("canary survived, read {}", x);
    std::process::exit(0)
}

/// Writes one header past a zero-capacity array placed at the end of the arena.
pub fn overwrite() -> ! {
    let mut ctx = Ctx::new();
    let p = ctx.hdrs.raw(0, 8, Place::End, false) as *mut u64;
    // SAFETY: deliberately out of bounds -- this is the canary
    unsafe { std::ptr::write_volatile(p, 1) };
    println!("canary survived");
    std::process::exit(0)
}

/// Heap out-of-bounds read for ASan / Miri / memcheck.
pub fn heap_oob() -> ! {
    let v: Vec<u8> = vec![1u8; 24];
    let p = v.as_ptr();
    // SAFETY: deliberately out of bounds -- this is the canary
    let x = unsafe { std::ptr::read_volatile(p.add(24)) };
    println!("canary survived, read {}", x);
    std::process::exit(0)
}

/// A hand-made observation equal to what the reference spec says (the
/// canaries must not depend on the parser under test being correct).
fn handmade(entry: Entry, data: &[u8], cap: usize) -> Obs {
    let (res, info) = crate::spec::run(entry, data, 0, cap);
    let mut slots: Vec<Slot> = (0..cap).map(|_| Slot::Sent).collect();
    if res.st.is_complete() {
        for (i, (n, v)) in res.headers.iter().enumerate() {
            slots[i] = Slot::Hdr(*n, *v);
        }
    }
    let hdr_len = if res.st.is_complete() { res.headers.len() } else { cap };
    let _ = info;
    Obs {
        res,
        entry,
        cfg: 0,
        cap,
        hdr_len,
        hdr_at_array: true,
        hdr_at_own: false,
        own_intact: true,
        slots,
        exposed_poison: false,
        panic: None,
        ctr: Default::default(),
        allocs: 0,
        forced_ok: true,
        strs_utf8: true,
    }
}

/// Hand-made wrong observations must be rejected by the oracle functions
/// (and the matching right ones accepted).
pub fn oracles() -> Vec<(&'static str, bool)> {
    crate::obs::install_panic_hook();
    let mut out = Vec::new();
    let data = b"GET /p HTTP/1.1\r\nHost: h\r\nA: b\r\n\r\nbody";
    let buf: &[u8] = data;
    let good = handmade(Entry::R2, data, 8);
    out.push(("good_complete", good.res.st == St::Complete(34) && good.res.headers.len() == 2));
    out.push(("good_c03", orc::c03(Kind::Req, buf, &good).is_none()));
    out.push(("good_c04", orc::c04(buf, &good).is_none()));
    out.push(("good_c05", orc::c05(Kind::Req, buf, &good).is_none()));
    let (s, _) = crate::spec::request(data, 0, 8);
    out.push(("good_spec", orc::vs_spec(buf, &good, &s, orc::Cmp { class_only_err: false, start_line: true, headers: true }).is_none()));
    // shifted offset
    let mut o = good.clone();
    o.res.st = St::Complete(data.len() - 5);
    out.push(("c03_shifted_n", orc::c03(Kind::Req, buf, &o).is_some()));
    let mut o = good.clone();
    o.res.st = St::Partial;
    out.push(("c03_partial_with_empty_line", orc::c03(Kind::Req, buf, &o).is_some()));
    // out-of-buffer slice
    let mut o = good.clone();
    o.res.path = Loc::Out(1, 2);
    out.push(("c04_outside", orc::c04(buf, &o).is_some()));
    let mut o = good.clone();
    o.res.headers.swap(0, 1);
    out.push(("c04_order", orc::c04(buf, &o).is_some()));
    let mut o = good.clone();
    o.res.headers[1].1 = Loc::In(30, 6);
    out.push(("c04_beyond_head", orc::c04(buf, &o).is_some()));
    // dirty field
    let mut o = good.clone();
    o.res.method = Loc::In(3, 2);
    out.push(("c05_method", orc::c05(Kind::Req, buf, &o).is_some()));
    let mut o = good.clone();
    o.res.headers[0].1 = Loc::In(22, 2);
    out.push(("c05_value_untrimmed", orc::c05(Kind::Req, buf, &o).is_some()));
    // wrong header list
    let mut o = good.clone();
    o.res.headers.pop();
    out.push(("spec_headers", orc::vs_spec(buf, &o, &s, orc::Cmp { class_only_err: true, start_line: false, headers: true }).is_some()));
    let mut o = good.clone();
    o.res.version = Some(0);
    out.push(("spec_start_line", orc::vs_spec(buf, &o, &s, orc::Cmp { class_only_err: true, start_line: true, headers: false }).is_some()));
    // error kind
    let bad = b"GET /p HTTP/1.1\r\nHo st: h\r\n\r\n";
    let mut o = handmade(Entry::R2, bad, 8);
    let (s2, _) = crate::spec::request(bad, 0, 8);
    out.push(("good_c10", s2.st == St::Err(ErrK::HeaderName) && orc::c10(&o, &s2).is_none()));
    o.res.st = St::Err(ErrK::HeaderValue);
    out.push(("c10_kind", orc::c10(&o, &s2).is_some()));
    // storage
    let o3 = handmade(Entry::R1, data, 4);
    let am = handmade(Entry::R1, data, 16);
    out.push(("good_c17", orc::c17(buf, &o3, &am).is_none()));
    let mut o = o3.clone();
    o.slots[3] = Slot::Hdr(Loc::In(0, 1), Loc::In(1, 1));
    out.push(("c17_slot_beyond_count", orc::c17(buf, &o, &am).is_some()));
    let mut o = o3.clone();
    o.hdr_len = 1;
    out.push(("c17_count", orc::c17(buf, &o, &am).is_some()));
    let mut o1 = handmade(Entry::R1, data, 1);
    o1.slots[0] = Slot::Hdr(Loc::In(17, 4), Loc::In(23, 1));
    out.push(("good_c17_toomany", o1.res.st == St::Err(ErrK::TooManyHeaders) && orc::c17(buf, &o1, &am).is_none()));
    let mut o = o1.clone();
    o.res.st = St::Partial;
    out.push(("c17_capacity_law", orc::c17(buf, &o, &am).is_some()));
    let mut o = o1.clone();
    o.hdr_len = 0;
    out.push(("c17_not_restored", orc::c17(buf, &o, &am).is_some()));
    // allocation counter
    let a0 = crate::alloc_count::events();
    let bx = std::hint::black_box(Box::new(5u64));
    let a1 = crate::alloc_count::events();
    drop(bx);
    out.push(("alloc_counter_counts", a1 > a0));
    // fuel
    httparse::_verif::reset();
    httparse::_verif::set_fuel(3);
    let r = std::panic::catch_unwind(|| {
        let mut h = [httparse::EMPTY_HEADER; 2];
        let mut rq = httparse::Request::new(&mut h);
        let _ = rq.parse(b"GET / HTTP/1.1\r\n\r\n");
    });
    httparse::_verif::set_fuel(0);
    out.push(("fuel_guard_fires", r.is_err()));
    out
}
