//! One parse of a generated adversarial input inside a measured region
//! (callgrind target for C20): scale <family> <n> <backend id>
use hverif::types::*;

#[inline(never)]
#[no_mangle]
pub fn measured_region(entry: Entry, cfg: u8, cap: usize, buf: &[u8]) -> u64 {
    let pc = mkcfg(cfg);
    let mut hs = vec![httparse::EMPTY_HEADER; cap];
    measured_inner(entry, &pc, &mut hs, buf)
}

#[inline(never)]
#[no_mangle]
pub fn measured_inner<'b>(entry: Entry, pc: &httparse::ParserConfig, hs: &mut [httparse::Header<'b>], buf: &'b [u8]) -> u64 {
    use httparse::Status;
    let f = |r: httparse::Result<usize>| match r {
        Ok(Status::Complete(n)) => n as u64,
        Ok(Status::Partial) => u64::MAX,
        Err(e) => u64::MAX - 1 - e as u64,
    };
    match entry {
        Entry::R1 | Entry::R3 => f(httparse::Request::new(hs).parse(buf)),
        Entry::R2 | Entry::R4 => f(pc.parse_request(&mut httparse::Request::new(hs), buf)),
        Entry::S1 => f(httparse::Response::new(hs).parse(buf)),
        Entry::S2 | Entry::S4 => f(pc.parse_response(&mut httparse::Response::new(hs), buf)),
        Entry::H => match httparse::parse_headers(buf, hs) {
            Ok(Status::Complete((n, _))) => n as u64,
            Ok(Status::Partial) => u64::MAX,
            Err(e) => u64::MAX - 1 - e as u64,
        },
        Entry::K => match httparse::parse_chunk_size(buf) {
            Ok(Status::Complete((n, _))) => n as u64,
            Ok(Status::Partial) => u64::MAX,
            Err(_) => u64::MAX - 1,
        },
    }
}

fn main() {
    let a: Vec<String> = std::env::args().collect();
    let fam: usize = a[1].parse().unwrap();
    let n: usize = a[2].parse().unwrap();
    let bk: u8 = a.get(3).and_then(|s| s.parse().ok()).unwrap_or(0);
    let s = hverif::gen::g7(fam, n);
    if bk != 0 {
        httparse::_verif::scan::set_runtime_feature(bk);
    }
    // warm the runtime-detection cache outside the measured region
    let _ = httparse::parse_chunk_size(b"0\r\n");
    let mut h = [httparse::EMPTY_HEADER; 1];
    let _ = httparse::Request::new(&mut h).parse(b"GET /aaaaaaaaaaaaaaaaaaaaaaaaaaaaaaaaaaaaaaaaaaaaaaaaaaaaaaaaaaaaaaaaaaaaa HTTP/1.1\r\n\r\n");
    let r = measured_region(s.entry, s.cfg, s.cap, &s.buf);
    println!("{{\"family\":\"{}\",\"len\":{},\"result\":{}}}", s.name, s.buf.len(), r);
}
