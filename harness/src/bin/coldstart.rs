//! Cold-start race (C13 clause 3, C19 cold start): N threads wait on a
//! barrier, then each makes the process's FIRST parse calls concurrently.
//! Usage: coldstart <threads> <seed>
//! Prints one JSON line: {"detects":k,"all_equal":bool,"first_call_allocs":a,...}
use httparse::_verif as hv;
use std::sync::atomic::{AtomicBool, AtomicUsize, Ordering};
use std::sync::Arc;

fn message(i: usize) -> Vec<u8> {
    // long target and values so that the vectored scanners (and therefore the
    // runtime feature cache) are reached
    let mut b = b"GET /".to_vec();
    b.extend(std::iter::repeat(b'a').take(70 + i % 3));
    b.extend_from_slice(b"?q=\xc3\xa9 HTTP/1.1\r\nHost: ");
    b.extend(std::iter::repeat(b'h').take(64));
    b.extend_from_slice(b"\r\nAccept: text/html,application/xhtml+xml,application/xml;q=0.9,*/*;q=0.8\r\nX-Tab: a\tb\tc\r\n\r\n");
    b
}

fn parse_digest(buf: &[u8]) -> (u64, u64) {
    let mut h = [httparse::EMPTY_HEADER; 8];
    let mut r = httparse::Request::new(&mut h);
    let a0 = hverif::alloc_count::thread_events();
    let st = r.parse(buf);
    let a1 = hverif::alloc_count::thread_events();
    let base = buf.as_ptr() as usize;
    let mut d: u64 = match st {
        Ok(httparse::Status::Complete(n)) => 1000 + n as u64,
        Ok(httparse::Status::Partial) => 1,
        Err(e) => 2 + e as u64,
    };
    let mixin = |d: &mut u64, p: *const u8, l: usize| *d = hverif::rng::mix(*d, ((p as usize).wrapping_sub(base) as u64) << 20 | l as u64);
    if let Some(m) = r.method {
        mixin(&mut d, m.as_ptr(), m.len());
    }
    if let Some(p) = r.path {
        mixin(&mut d, p.as_ptr(), p.len());
    }
    d = hverif::rng::mix(d, r.version.map_or(9, |v| v as u64));
    if st.map_or(false, |s| s.is_complete()) {
        for hd in r.headers.iter() {
            mixin(&mut d, hd.name.as_ptr(), hd.name.len());
            mixin(&mut d, hd.value.as_ptr(), hd.value.len());
        }
    }
    (d, a1 - a0)
}

fn main() {
    let a: Vec<String> = std::env::args().collect();
    let n: usize = a.get(1).and_then(|s| s.parse().ok()).unwrap_or(16);
    let seed: u64 = a.get(2).and_then(|s| s.parse().ok()).unwrap_or(0);
    // "yield": the barrier yields instead of spinning (for runs pinned to fewer CPUs than threads)
    let yielding = a.get(3).map_or(false, |s| s == "yield");
    // "sleep": after the (yielding) barrier every thread sleeps a different 0..400 us, so that, pinned to
    // fewer CPUs than threads, a timer wake-up preempts whichever thread is in the middle of its first
    // call (and possibly of the CPU feature detection) and the woken thread makes its own first call
    // while that one is off the CPU
    let sleeping = a.get(3).map_or(false, |s| s == "sleep");
    let yielding = yielding || sleeping;
    let msgs: Vec<Vec<u8>> = (0..n).map(message).collect();
    let pre = hv::scan::get_runtime_feature();
    // spin barrier: all threads leave within nanoseconds of each other
    let ready = Arc::new(AtomicUsize::new(0));
    let go = Arc::new(AtomicBool::new(false));
    let msgs = Arc::new(msgs);
    let mut hs = Vec::new();
    for t in 0..n {
        let (ready, go) = (ready.clone(), go.clone());
        let m = msgs.clone();
        hs.push(std::thread::spawn(move || {
            let mut r = hverif::rng::Rng::derive(seed, 0xc01d, t as u64);
            let big = r.chance(1, 3);
            let spins = if r.chance(1, 2) { 0 } else { r.below(if big { 2000 } else { 40 }) };
            ready.fetch_add(1, Ordering::SeqCst);
            while !go.load(Ordering::Acquire) {
                if yielding {
                    std::thread::yield_now();
                } else {
                    std::hint::spin_loop();
                }
            }
            if sleeping {
                std::thread::sleep(std::time::Duration::from_micros(r.below(400) as u64));
            }
            for _ in 0..spins {
                std::hint::spin_loop();
            }
            if r.chance(1, 4) {
                std::thread::yield_now();
            }
            parse_digest(&m[t])
        }));
    }
    while ready.load(Ordering::SeqCst) < n {
        if yielding {
            std::thread::yield_now();
        } else {
            std::hint::spin_loop();
        }
    }
    go.store(true, Ordering::Release);
    let got: Vec<(u64, u64)> = hs.into_iter().map(|h| h.join().unwrap()).collect();
    let detects = hv::snapshot().detects;
    // reference: the same parses, sequentially, after the cache is warm
    let mut all_equal = true;
    let mut first_bad = -1i64;
    for t in 0..n {
        let (d, _) = parse_digest(&msgs[t]);
        if d != got[t].0 {
            all_equal = false;
            if first_bad < 0 {
                first_bad = t as i64;
            }
        }
    }
    let max_allocs = got.iter().map(|g| g.1).max().unwrap_or(0);
    println!(
        "{{\"threads\":{},\"detects\":{},\"all_equal\":{},\"first_bad_thread\":{},\"first_call_allocs\":{},\"feature_before\":{},\"feature_after\":{}}}",
        n,
        detects,
        all_equal,
        first_bad,
        max_allocs,
        pre.map_or(-1, |v| v as i64),
        hv::scan::get_runtime_feature().map_or(-1, |v| v as i64)
    );
    std::process::exit(if all_equal { 0 } else { 1 });
}
