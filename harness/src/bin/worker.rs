//! worker <prop> --tier T --seed S --shard i/N --out FILE
//! worker replay call <prop> <entry> <cfg> <cap> <place> <backend> <hex>
use hverif::arena::Place;
use hverif::obs::Call;
use hverif::props::{Tier, W};
use hverif::types::*;
use std::io::Write;

fn main() {
    let a: Vec<String> = std::env::args().collect();
    if a.len() == 2 && a[1] == "help" {
        // also used by the driver as a build-only invocation under `cargo miri run`
        println!("worker <prop> --tier T --seed S --shard i/N --out FILE | replay ... | canary ... | dump-corpus DIR");
        return;
    }
    if a.len() >= 3 && a[1] == "replay" {
        std::process::exit(replay(&a[2..]));
    }
    if a.len() >= 3 && a[1] == "dump-corpus" {
        // seed corpus for the libFuzzer engine: G1 templates with selector prefixes
        std::fs::create_dir_all(&a[2]).unwrap();
        let mut n = 0;
        for kind in hverif::gen::ALL_KINDS {
            for (i, t) in hverif::gen::templates(kind).iter().enumerate() {
                if t.len() > 400 {
                    continue;
                }
                for (j, e) in kind.entries().iter().enumerate() {
                    if (i + j) % 2 == 1 && kind.entries().len() > 1 {
                        continue;
                    }
                    let mut b = vec![e.idx() as u8 + 9 * ((i % 3) as u8), (i * 37 % 128) as u8, 6 + ((i % 4) as u8)];
                    b.extend_from_slice(t);
                    std::fs::write(format!("{}/seed-{:04}", a[2], n), &b).unwrap();
                    n += 1;
                }
            }
        }
        println!("{} corpus files", n);
        return;
    }
    if a.len() >= 3 && a[1] == "canary" {
        match a[2].as_str() {
            "overread" => hverif::canary::overread(),
            "overwrite" => hverif::canary::overwrite(),
            "heap_oob" => hverif::canary::heap_oob(),
            _ => {
                let r = hverif::canary::oracles();
                let mut ok = true;
                for (n, v) in &r {
                    println!("canary {} {}", n, if *v { "ok" } else { "SILENT" });
                    ok &= *v;
                }
                std::process::exit(if ok { 0 } else { 3 });
            }
        }
    }
    let prop = a.get(1).expect("property id").clone();
    let mut tier = Tier::Quick;
    let mut seed = 0u64;
    let (mut shard, mut n) = (0u64, 1u64);
    let mut out = String::new();
    let mut i = 2;
    while i < a.len() {
        match a[i].as_str() {
            "--tier" => {
                tier = Tier::parse(&a[i + 1]);
                i += 1;
            }
            "--seed" => {
                seed = a[i + 1].parse().unwrap_or(0);
                i += 1;
            }
            "--shard" => {
                let mut it = a[i + 1].split('/');
                shard = it.next().unwrap().parse().unwrap();
                n = it.next().unwrap().parse().unwrap();
                i += 1;
            }
            "--out" => {
                out = a[i + 1].clone();
                i += 1;
            }
            _ => {}
        }
        i += 1;
    }
    let mut w = W::new(&prop, tier, seed, shard, n);
    hverif::run::run_property(&mut w);
    let j = w.st.to_json().set("wall_s", hverif::report::J::F(w.t0.elapsed().as_secs_f64())).set("can_force", hverif::report::J::B(w.can_force));
    let s = j.to_string();
    if out.is_empty() {
        println!("{}", s);
    } else {
        let mut f = std::fs::File::create(&out).expect("create out");
        f.write_all(s.as_bytes()).unwrap();
    }
}

fn replay(a: &[String]) -> i32 {
    match a[0].as_str() {
        "call" => {
            let prop = &a[1];
            let entry = Entry::from_name(&a[2]).expect("entry");
            let cfg: u8 = a[3].parse().unwrap();
            let cap: usize = a[4].parse().unwrap();
            let place = Place::from_code(a[5].parse().unwrap());
            let backend = Backend::from_id(a[6].parse().unwrap());
            let data = unhex(&a[7]);
            let mut w = W::new(prop, Tier::Quick, 0, 0, 1);
            let call = Call { entry, cfg, cap, hplace: Place::End, backend };
            let bad = hverif::units::unit_call(&mut w, call, &data, place);
            println!("replay {} entry={} cfg={} cap={} input={}", prop, entry.name(), cfg, cap, hverif::report::esc(&data));
            for v in &w.st.violations {
                println!("  rule={} {}", v.rule, v.detail);
            }
            if bad {
                println!("REPRODUCED");
                1
            } else {
                println!("not reproduced (property held on this case)");
                0
            }
        }
        "fuzz" => {
            // fuzz <prop> <artifact file>
            std::env::set_var("VERIF_FUZZ_PROP", &a[1]);
            let data = std::fs::read(&a[2]).expect("artifact");
            match hverif::fuzzglue::fuzz_one(&data) {
                Some(m) => {
                    println!("{}", m);
                    println!("REPRODUCED");
                    1
                }
                None => {
                    println!("not reproduced");
                    0
                }
            }
        }
        other => hverif::run::replay_other(other, &a[1..]),
    }
}
