//! Placement of the caller's buffer and header array.
//!
//! Guard mode (native default): one mmap'd region `[PROT_NONE page | RW ... RW
//! | PROT_NONE page]`. A buffer placed at `End` has its last byte directly in
//! front of the trailing inaccessible page, so an over-read of one byte
//! faults; `Start` puts the first byte directly after the leading
//! inaccessible page; `Mid(a)` gives a start address congruent to a mod 32.
//!
//! Heap mode (Miri, ASan, valgrind; `VERIF_ARENA=heap`): every placement is a
//! fresh exact-size heap allocation, so the tool's own byte-exact bounds /
//! red zones apply. `Mid(a)` then over-allocates by `a` bytes in front (the
//! tail still ends exactly at the allocation's end).

use std::alloc::{alloc, dealloc, Layout};

#[derive(Clone, Copy, PartialEq, Eq, Debug, Hash)]
pub enum Place {
    End,
    Start,
    Mid(u8),
    /// a 4 KiB page boundary falls exactly `k` bytes after the start of the buffer
    Cross(u16),
}

impl Place {
    pub fn code(self) -> u32 {
        match self {
            Place::End => 1000,
            Place::Start => 1001,
            Place::Mid(a) => a as u32,
            Place::Cross(k) => 2000 + k as u32,
        }
    }
    pub fn from_code(c: u32) -> Place {
        match c {
            1000 => Place::End,
            1001 => Place::Start,
            c if c >= 2000 => Place::Cross((c - 2000) as u16),
            a => Place::Mid((a % 32) as u8),
        }
    }
}

const PAGE: usize = 4096;

#[cfg(not(miri))]
extern "C" {
    fn mmap(addr: *mut u8, len: usize, prot: i32, flags: i32, fd: i32, off: i64) -> *mut u8;
    fn mprotect(addr: *mut u8, len: usize, prot: i32) -> i32;
}

pub fn heap_mode() -> bool {
    if cfg!(miri) {
        return true;
    }
    static MODE: std::sync::OnceLock<bool> = std::sync::OnceLock::new();
    *MODE.get_or_init(|| std::env::var("VERIF_ARENA").map(|v| v == "heap").unwrap_or(false))
}

pub struct Arena {
    /// first accessible byte (guard mode)
    lo: *mut u8,
    /// one past the last accessible byte (guard mode)
    hi: *mut u8,
    /// heap mode: the live allocation
    live: Option<(*mut u8, Layout)>,
    heap: bool,
}

impl Arena {
    /// `size` accessible bytes (rounded up to pages).
    pub fn new(size: usize) -> Arena {
        let _ = size;
        let heap = heap_mode();
        if heap {
            return Arena { lo: std::ptr::null_mut(), hi: std::ptr::null_mut(), live: None, heap };
        }
        #[cfg(not(miri))]
        {
            let size = (size + PAGE - 1) / PAGE * PAGE;
            let total = size + 2 * PAGE;
            // PROT_READ|PROT_WRITE = 3, MAP_PRIVATE|MAP_ANONYMOUS = 0x22
            // SAFETY: plain anonymous mapping
            let base = unsafe { mmap(std::ptr::null_mut(), total, 3, 0x22, -1, 0) };
            assert!(!base.is_null() && base as isize != -1, "mmap failed");
            // SAFETY: both pages are inside the mapping
            unsafe {
                assert_eq!(mprotect(base, PAGE, 0), 0);
                assert_eq!(mprotect(base.add(PAGE + size), PAGE, 0), 0);
                return Arena { lo: base.add(PAGE), hi: base.add(PAGE + size), live: None, heap };
            }
        }
        #[allow(unreachable_code)]
        {
            unreachable!()
        }
    }

    pub fn capacity(&self) -> usize {
        if self.heap {
            usize::MAX / 4
        } else {
            self.hi as usize - self.lo as usize
        }
    }

    /// Raw placement of `len` bytes with alignment `align` (power of two).
    /// In heap mode the previous placement of this arena is freed.
    pub fn raw(&mut self, len: usize, align: usize, place: Place, uninit: bool) -> *mut u8 {
        if self.heap {
            if let Some((p, l)) = self.live.take() {
                // SAFETY: allocated below with the same layout
                unsafe { dealloc(p, l) };
            }
            let pad = match place {
                Place::Mid(a) => {
                    let a = a as usize;
                    (a + align - 1) / align * align
                }
                Place::Cross(k) => ((k as usize % 32) + align - 1) / align * align,
                _ => 0,
            };
            let total = (len + pad).max(1);
            let layout = Layout::from_size_align(total, align.max(32)).unwrap();
            // SAFETY: non-zero size
            let p = unsafe { alloc(layout) };
            assert!(!p.is_null());
            if !uninit {
                // SAFETY: freshly allocated `total` bytes
                unsafe { std::ptr::write_bytes(p, 0xEE, total) };
            }
            self.live = Some((p, layout));
            // for len + pad == 0 hand out the (dangling-for-0-bytes) end pointer
            // SAFETY: pad <= total
            return unsafe { p.add(pad.min(total)) };
        }
        assert!(len + 96 <= self.capacity(), "arena too small for {} bytes", len);
        let p = match place {
            Place::End => (self.hi as usize - len) as *mut u8,
            Place::Start => self.lo,
            Place::Mid(a) => {
                let a = (a as usize + align - 1) / align * align;
                // SAFETY: inside the region (checked above)
                unsafe { self.lo.add(64 + a) }
            }
            Place::Cross(k) => {
                // an interior page boundary of the region, k bytes after the buffer start
                let k = (k as usize).min(len).min(PAGE - 1);
                // SAFETY: the region has at least 16 pages (checked by the caller's sizes)
                unsafe { self.lo.add(8 * PAGE - k) }
            }
        };
        let p = if place == Place::End { ((p as usize) & !(align - 1)) as *mut u8 } else { p };
        p
    }

    /// Copy `data` into the arena and hand it out as a slice. The slice is
    /// only valid until the next placement in this arena (harness discipline;
    /// every observation finishes before the next placement).
    pub fn bytes(&mut self, data: &[u8], place: Place) -> &'static [u8] {
        let p = self.raw(data.len(), 1, place, false);
        // SAFETY: `p` points to data.len() writable bytes
        unsafe {
            std::ptr::copy_nonoverlapping(data.as_ptr(), p, data.len());
            std::slice::from_raw_parts(p, data.len())
        }
    }
}

impl Drop for Arena {
    fn drop(&mut self) {
        if let Some((p, l)) = self.live.take() {
            // SAFETY: allocated with this layout
            unsafe { dealloc(p, l) };
        }
    }
}
