//! Per-worker statistics, samples, violation witnesses and a tiny JSON writer.

use crate::obs::Obs;
use crate::types::*;
use std::collections::{BTreeMap, BTreeSet, HashSet};
use std::fmt::Write as _;

pub fn esc(b: &[u8]) -> String {
    let mut s = String::with_capacity(b.len() + 2);
    s.push('"');
    for &c in b.iter().take(400) {
        match c {
            b'\r' => s.push_str("\\r"),
            b'\n' => s.push_str("\\n"),
            b'\t' => s.push_str("\\t"),
            b'"' => s.push_str("\\\""),
            b'\\' => s.push_str("\\\\"),
            0x20..=0x7e => s.push(c as char),
            _ => {
                let _ = write!(s, "\\x{:02x}", c);
            }
        }
    }
    if b.len() > 400 {
        let _ = write!(s, "...(+{} bytes)", b.len() - 400);
    }
    s.push('"');
    s
}

#[derive(Clone, Debug)]
pub enum J {
    Null,
    B(bool),
    I(i64),
    U(u64),
    F(f64),
    S(String),
    A(Vec<J>),
    O(Vec<(String, J)>),
}

impl J {
    pub fn obj() -> J {
        J::O(Vec::new())
    }
    pub fn set(mut self, k: &str, v: J) -> J {
        if let J::O(ref mut o) = self {
            o.push((k.to_string(), v));
        }
        self
    }
    pub fn s(x: &str) -> J {
        J::S(x.to_string())
    }
    pub fn write(&self, out: &mut String) {
        match self {
            J::Null => out.push_str("null"),
            J::B(b) => out.push_str(if *b { "true" } else { "false" }),
            J::I(i) => {
                let _ = write!(out, "{}", i);
            }
            J::U(i) => {
                let _ = write!(out, "{}", i);
            }
            J::F(f) => {
                if f.is_finite() {
                    let _ = write!(out, "{}", f);
                } else {
                    out.push_str("null");
                }
            }
            J::S(s) => {
                out.push('"');
                for c in s.chars() {
                    match c {
                        '"' => out.push_str("\\\""),
                        '\\' => out.push_str("\\\\"),
                        '\n' => out.push_str("\\n"),
                        '\r' => out.push_str("\\r"),
                        '\t' => out.push_str("\\t"),
                        c if (c as u32) < 0x20 => {
                            let _ = write!(out, "\\u{:04x}", c as u32);
                        }
                        c => out.push(c),
                    }
                }
                out.push('"');
            }
            J::A(a) => {
                out.push('[');
                for (i, x) in a.iter().enumerate() {
                    if i > 0 {
                        out.push(',');
                    }
                    x.write(out);
                }
                out.push(']');
            }
            J::O(o) => {
                out.push('{');
                for (i, (k, v)) in o.iter().enumerate() {
                    if i > 0 {
                        out.push(',');
                    }
                    J::S(k.clone()).write(out);
                    out.push(':');
                    v.write(out);
                }
                out.push('}');
            }
        }
    }
    pub fn to_string(&self) -> String {
        let mut s = String::new();
        self.write(&mut s);
        s
    }
}

/// A witness: enough to replay one failing case.
#[derive(Clone, Debug)]
pub struct Violation {
    pub property: String,
    pub rule: String,
    pub detail: String,
    /// replay arguments for `worker replay ...`
    pub replay: Vec<String>,
    /// known-finding signature, if the worker recognises one
    pub signature: Option<String>,
}

pub struct Stats {
    pub evaluations: u64,
    pub distinct: HashSet<u64>,
    pub hist: [u64; 11],
    pub entries: [u64; 9],
    pub cfgs: u128,
    pub caps: BTreeSet<usize>,
    pub lens: BTreeSet<usize>,
    pub aligns: u32,
    pub places: u32,
    pub backends: u64,
    pub counters: BTreeMap<String, u64>,
    pub maxes: BTreeMap<String, f64>,
    pub samples: Vec<J>,
    pub sample_class: [u8; 3],
    pub sample_every: u64,
    pub violations: Vec<Violation>,
    pub max_violations: usize,
    pub notes: Vec<String>,
}

impl Stats {
    pub fn new() -> Stats {
        Stats {
            evaluations: 0,
            distinct: HashSet::new(),
            hist: [0; 11],
            entries: [0; 9],
            cfgs: 0,
            caps: BTreeSet::new(),
            lens: BTreeSet::new(),
            aligns: 0,
            places: 0,
            backends: 0,
            counters: BTreeMap::new(),
            maxes: BTreeMap::new(),
            samples: Vec::new(),
            sample_class: [0; 3],
            sample_every: 1,
            violations: Vec::new(),
            max_violations: 20,
            notes: Vec::new(),
        }
    }
    pub fn count(&mut self, k: &str, n: u64) {
        if let Some(v) = self.counters.get_mut(k) {
            *v += n;
        } else {
            self.counters.insert(k.to_string(), n);
        }
    }
    pub fn max(&mut self, k: &str, x: f64) {
        let e = self.maxes.entry(k.to_string()).or_insert(f64::MIN);
        if x > *e {
            *e = x;
        }
    }
    /// Record one monitored call.
    pub fn seen(&mut self, o: &Obs, buf: &[u8]) {
        self.evaluations += 1;
        self.hist[o.res.st.hist_idx()] += 1;
        self.entries[o.entry.idx()] += 1;
        self.cfgs |= 1u128 << (o.entry.effective_cfg(o.cfg) & 127);
        if self.caps.len() < 200 {
            self.caps.insert(o.cap);
        }
        if self.lens.len() < 5000 {
            self.lens.insert(buf.len());
        }
        self.aligns |= 1 << (buf.as_ptr() as usize % 32);
        self.backends |= o.ctr.backends;
    }
    /// Distinct-case accounting: call once per executed case key.
    pub fn distinct_case(&mut self, key: u64) {
        // memory cap: beyond 4M distinct keys per shard the count becomes a lower bound
        if self.distinct.len() < 4_000_000 {
            self.distinct.insert(key);
        } else {
            self.count("distinct_counting_capped_cases", 1);
        }
    }
    /// Room for another sample of this outcome class (0 Complete, 1 Partial, 2 Err)?
    pub fn room(&self, class: u8) -> bool {
        self.samples.len() < 9 && self.sample_class[class as usize] < 3
    }
    pub fn sample_c(&mut self, class: u8, j: J) {
        if self.room(class) {
            self.sample_class[class as usize] += 1;
            self.samples.push(j);
        }
    }
    pub fn want_sample(&self) -> bool {
        self.samples.len() < 8
    }
    pub fn sample(&mut self, j: J) {
        if self.samples.len() < 8 {
            self.samples.push(j);
        }
    }
    pub fn sample_call(&mut self, o: &Obs, buf: &[u8], extra: &str) {
        if self.samples.len() < 8 {
            let j = J::obj()
                .set("entry", J::s(o.entry.name()))
                .set("cfg_bits", J::U(o.cfg as u64))
                .set("capacity", J::U(o.cap as u64))
                .set("input", J::S(esc(buf)))
                .set("len", J::U(buf.len() as u64))
                .set("addr_mod_32", J::U(buf.as_ptr() as usize as u64 % 32))
                .set("observed", J::S(o.res.show(buf)))
                .set("note", J::s(extra));
            self.samples.push(j);
        }
    }
    pub fn violation(&mut self, v: Violation) {
        if self.violations.len() < self.max_violations {
            self.violations.push(v);
        } else {
            self.count("violations_dropped_over_cap", 1);
        }
    }
    pub fn to_json(&self) -> J {
        let mut hist = J::obj();
        for (i, n) in self.hist.iter().enumerate() {
            hist = hist.set(HIST_NAMES[i], J::U(*n));
        }
        let mut ent = J::obj();
        for (i, n) in self.entries.iter().enumerate() {
            ent = ent.set(ALL_ENTRIES[i].name(), J::U(*n));
        }
        let mut ctr = J::obj();
        for (k, v) in &self.counters {
            ctr = ctr.set(k, J::U(*v));
        }
        let mut mx = J::obj();
        for (k, v) in &self.maxes {
            mx = mx.set(k, J::F(*v));
        }
        let viol = self
            .violations
            .iter()
            .map(|v| {
                J::obj()
                    .set("property", J::s(&v.property))
                    .set("rule", J::s(&v.rule))
                    .set("detail", J::s(&v.detail))
                    .set("replay", J::A(v.replay.iter().map(|s| J::s(s)).collect()))
                    .set("signature", v.signature.as_ref().map(|s| J::s(s)).unwrap_or(J::Null))
            })
            .collect();
        J::obj()
            .set("evaluations", J::U(self.evaluations))
            .set("distinct", J::U(self.distinct.len() as u64))
            .set("hist", hist)
            .set("entries", ent)
            .set("cfgs_lo", J::S(format!("{:032x}", self.cfgs)))
            .set("caps", J::A(self.caps.iter().map(|c| J::U(*c as u64)).collect()))
            .set("lens_count", J::U(self.lens.len() as u64))
            .set("lens_max", J::U(self.lens.iter().next_back().copied().unwrap_or(0) as u64))
            .set("lens", J::A(self.lens.iter().take(2000).map(|c| J::U(*c as u64)).collect()))
            .set("aligns", J::U(self.aligns as u64))
            .set("places", J::U(self.places as u64))
            .set("backends", J::U(self.backends))
            .set("counters", ctr)
            .set("maxes", mx)
            .set("samples", J::A(self.samples.clone()))
            .set("violations", J::A(viol))
            .set("notes", J::A(self.notes.iter().map(|s| J::s(s)).collect()))
    }
}

/// Replay arguments for a plain call case.
pub fn replay_call(prop: &str, entry: Entry, cfg: u8, cap: usize, place: u32, backend: Backend, buf: &[u8]) -> Vec<String> {
    vec![
        "call".into(),
        prop.into(),
        entry.name().into(),
        cfg.to_string(),
        cap.to_string(),
        place.to_string(),
        backend.id().to_string(),
        hex(buf),
    ]
}
