//! The repository's src/simd/neon.rs, compiled against the emulated intrinsics
//! (see build.rs; only import paths are rewritten).
#![allow(unused, non_camel_case_types, clippy::all)]
include!(concat!(env!("OUT_DIR"), "/neon_rewritten.rs"));
