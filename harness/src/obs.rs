//! "Observe one call": run one public entry point on a fresh value with an
//! instrumented header array and return everything the oracles need, as
//! offsets (never as borrowed data), so that the buffer can be recycled.

use crate::alloc_count;
use crate::arena::{Arena, Place};
use crate::types::*;
use httparse::_verif as hv;
use httparse::{Header, Request, Response, Status};
use std::mem::MaybeUninit;
use std::panic::{catch_unwind, AssertUnwindSafe};

pub const SENT_N: usize = 4096;
static SENT: [u8; SENT_N + 8] = [b'S'; SENT_N + 8];
pub const POISON: u8 = 0xA5;
pub const HSZ: usize = std::mem::size_of::<Header<'static>>();

pub fn sent_header(i: usize) -> Header<'static> {
    let k = i % SENT_N;
    Header {
        // SAFETY: SENT is ASCII
        name: unsafe { std::str::from_utf8_unchecked(&SENT[k..k + 1]) },
        value: &SENT[k..k + 2],
    }
}

/// Locate a returned slice relative to the buffer of the call.
pub fn loc(buf: &[u8], p: *const u8, len: usize) -> Loc {
    let b0 = buf.as_ptr() as usize;
    let b1 = b0 + buf.len();
    let a = p as usize;
    let s0 = SENT.as_ptr() as usize;
    if a >= s0 && a < s0 + SENT.len() && len > 0 {
        return Loc::Sent((a - s0) as u32);
    }
    if len == 0 {
        if a >= b0 && a <= b1 {
            Loc::EmptyIn((a - b0) as u32)
        } else {
            Loc::EmptyOut
        }
    } else if a >= b0 && a + len <= b1 {
        Loc::In((a - b0) as u32, len as u32)
    } else {
        // SAFETY: the slice was handed out by the parser as a valid reference
        let content = unsafe { std::slice::from_raw_parts(p, len) };
        Loc::Out(crate::rng::hash_bytes(7, content), len as u32)
    }
}

pub fn loc_str(buf: &[u8], s: Option<&str>) -> Loc {
    match s {
        None => Loc::None,
        Some(s) => loc(buf, s.as_ptr(), s.len()),
    }
}

#[derive(Clone, Copy, PartialEq, Eq, Debug)]
pub enum Slot {
    /// still the sentinel written before the call for this index
    Sent,
    /// a header (name, value) -- locations relative to the call's buffer
    Hdr(Loc, Loc),
    /// uninit array: still the poison byte pattern
    Poison,
}

impl Slot {
    pub fn from_buf(self) -> bool {
        match self {
            Slot::Hdr(Loc::In(..), v) => matches!(v, Loc::In(..) | Loc::EmptyIn(_) | Loc::EmptyOut),
            _ => false,
        }
    }
}

fn classify(buf: &[u8], h: &Header<'_>, idx: usize) -> Slot {
    let n = loc(buf, h.name.as_ptr(), h.name.len());
    let v = loc(buf, h.value.as_ptr(), h.value.len());
    let k = (idx % SENT_N) as u32;
    if n == Loc::Sent(k) && h.name.len() == 1 && v == Loc::Sent(k) && h.value.len() == 2 {
        Slot::Sent
    } else {
        Slot::Hdr(n, v)
    }
}

#[derive(Clone, Debug)]
pub struct Obs {
    pub res: Res,
    pub entry: Entry,
    pub cfg: u8,
    pub cap: usize,
    /// `headers.len()` of the value after the call (H: length of the returned slice, 0 if none)
    pub hdr_len: usize,
    /// `headers.as_ptr()` is the caller's array for this call
    pub hdr_at_array: bool,
    /// uninit entries: `headers` is still (ptr, len) the value's own 2-slot array
    pub hdr_at_own: bool,
    /// uninit entries: the value's own 2-slot array still holds its sentinels
    pub own_intact: bool,
    /// caller's array after the call
    pub slots: Vec<Slot>,
    /// an exposed header still shows the poison pattern / could not be read
    pub exposed_poison: bool,
    pub panic: Option<String>,
    pub ctr: hv::Counters,
    pub allocs: u64,
    /// the requested backend could be forced (build has runtime dispatch)
    pub forced_ok: bool,
    /// every &str handed out (also on Partial/Err) re-validated as UTF-8
    pub strs_utf8: bool,
}

pub struct Ctx {
    pub bufs: Vec<Arena>,
    pub hdrs: Arena,
    pub own: Arena,
    pub fuel: bool,
    pub collect_slots: bool,
}

thread_local! {
    static LAST_PANIC: std::cell::RefCell<String> = std::cell::RefCell::new(String::new());
    /// true while a monitored parser call is running (its panics are observations, not harness bugs)
    pub static IN_MONITORED_CALL: std::cell::Cell<bool> = const { std::cell::Cell::new(false) };
}

pub fn install_panic_hook() {
    std::panic::set_hook(Box::new(|info| {
        let msg = format!("{}", info);
        if !IN_MONITORED_CALL.with(|c| c.get()) {
            // a panic of the harness itself must be visible (the driver reports it as inconclusive)
            eprintln!("HARNESS PANIC: {}", msg);
        }
        LAST_PANIC.with(|p| *p.borrow_mut() = msg);
    }));
}

impl Ctx {
    pub fn new() -> Ctx {
        install_panic_hook();
        assert_eq!(HSZ, 32, "Header is expected to be 4 words");
        Ctx {
            bufs: (0..6).map(|_| Arena::new((1 << 20) + (128 << 10))).collect(),
            hdrs: Arena::new((16 << 20) + 4096),
            own: Arena::new(4096),
            fuel: true,
            collect_slots: true,
        }
    }
    pub fn place(&mut self, data: &[u8], place: Place) -> &'static [u8] {
        self.bufs[0].bytes(data, place)
    }
    pub fn place_in(&mut self, arena: usize, data: &[u8], place: Place) -> &'static [u8] {
        self.bufs[arena].bytes(data, place)
    }
}

/// Sentinel-filled initialised array.
fn init_array(a: &mut Arena, cap: usize, place: Place) -> *mut Header<'static> {
    let p = a.raw(cap * HSZ, 8, place, false) as *mut Header<'static>;
    for i in 0..cap {
        // SAFETY: p points to cap slots
        unsafe { p.add(i).write(sent_header(i)) };
    }
    p
}

/// Poison-filled (native) or truly uninitialised (Miri) array.
fn uninit_array(a: &mut Arena, cap: usize, place: Place) -> *mut MaybeUninit<Header<'static>> {
    let p = a.raw(cap * HSZ, 8, place, true);
    if !cfg!(miri) {
        // SAFETY: p points to cap*HSZ writable bytes
        unsafe { std::ptr::write_bytes(p, POISON, cap * HSZ) };
    }
    p as *mut MaybeUninit<Header<'static>>
}

struct Guarded<T> {
    r: Option<T>,
    panic: Option<String>,
    ctr: hv::Counters,
    allocs: u64,
    forced_ok: bool,
}

fn guarded<T>(fuel: bool, buflen: usize, backend: Backend, f: impl FnOnce() -> T) -> Guarded<T> {
    let forced_ok = match backend {
        Backend::AsIs => true,
        b => hv::scan::set_runtime_feature(b.id()),
    };
    hv::reset();
    if fuel {
        hv::set_fuel(16 * buflen as u64 + 4096);
    }
    let a0 = alloc_count::events();
    IN_MONITORED_CALL.with(|c| c.set(true));
    let r = catch_unwind(AssertUnwindSafe(f));
    IN_MONITORED_CALL.with(|c| c.set(false));
    let a1 = alloc_count::events();
    hv::set_fuel(0);
    let ctr = hv::snapshot();
    // integrity of the instrumentation itself: a forced backend must be the one that ran. (A setter
    // hook that silently stopped working would leave every "forced SSE4.2 / scalar" call running the
    // detected backend, and the checks blind on two backends without knowing it.)
    if forced_ok && backend != Backend::AsIs {
        const SSE: u64 = hv::B_SSE42_URI | hv::B_SSE42_VALUE;
        const AVX: u64 = hv::B_AVX2_URI | hv::B_AVX2_VALUE;
        let wrong = match backend {
            Backend::Avx2 => ctr.backends & SSE,
            Backend::Sse42 => ctr.backends & AVX,
            Backend::Scalar => ctr.backends & (SSE | AVX),
            Backend::AsIs => 0,
        };
        let cached = hv::scan::get_runtime_feature();
        if wrong != 0 || (r.is_ok() && cached != Some(backend.id())) {
            eprintln!("HARNESS PANIC: backend forcing hook has no effect: forced {:?}, scanner bits {:#x}, cached id {:?}", backend, ctr.backends, cached);
            std::process::exit(3);
        }
    }
    match r {
        Ok(v) => Guarded { r: Some(v), panic: None, ctr, allocs: a1 - a0, forced_ok },
        Err(_) => {
            let msg = LAST_PANIC.with(|p| p.borrow().clone());
            Guarded { r: None, panic: Some(msg), ctr, allocs: 0, forced_ok }
        }
    }
}

pub fn st_of(r: &Option<httparse::Result<usize>>) -> St {
    match r {
        None => St::Err(ErrK::Panic),
        Some(Ok(Status::Complete(n))) => St::Complete(*n),
        Some(Ok(Status::Partial)) => St::Partial,
        Some(Err(e)) => St::Err(ErrK::from_httparse(*e)),
    }
}

fn utf8_ok(s: Option<&str>) -> bool {
    match s {
        None => true,
        Some(s) => std::str::from_utf8(s.as_bytes()).is_ok(),
    }
}

/// Read the exposed headers of a value: returns (list, poison seen).
pub fn exposed(buf: &[u8], hs: &[Header<'_>], strs_ok: &mut bool) -> (Vec<(Loc, Loc)>, bool) {
    let mut v = Vec::with_capacity(hs.len());
    let mut poison = false;
    for h in hs {
        // reading name/value fully: under Miri this is where an uninitialised
        // or foreign-provenance slot is reported
        let np = h.name.as_ptr() as usize;
        if np == usize::from_ne_bytes([POISON; 8]) {
            poison = true;
            v.push((Loc::None, Loc::None));
            continue;
        }
        if std::str::from_utf8(h.name.as_bytes()).is_err() {
            *strs_ok = false;
        }
        let mut acc = 0u8;
        for b in h.value {
            acc ^= *b;
        }
        std::hint::black_box(acc);
        v.push((loc(buf, h.name.as_ptr(), h.name.len()), loc(buf, h.value.as_ptr(), h.value.len())));
    }
    (v, poison)
}

/// Caller's array after the call, read through the arena's own pointer after
/// every borrow derived from it has ended.
fn read_slots_init(buf: &[u8], p: *const Header<'static>, cap: usize) -> Vec<Slot> {
    // SAFETY: all cap slots are initialised Headers (sentinels or parser writes)
    (0..cap).map(|i| classify(buf, unsafe { &*p.add(i) }, i)).collect()
}

fn read_slots_uninit(buf: &[u8], p: *const MaybeUninit<Header<'static>>, cap: usize, written_prefix: usize) -> Vec<Slot> {
    let mut v = Vec::with_capacity(cap);
    for i in 0..cap {
        if cfg!(miri) {
            // cannot look at possibly-uninitialised memory: only the prefix the parser exposed
            if i < written_prefix {
                // SAFETY: exposed by the parser as initialised
                v.push(classify(buf, unsafe { (*p.add(i)).assume_init_ref() }, i));
            } else {
                v.push(Slot::Poison);
            }
            continue;
        }
        // SAFETY: natively the memory was filled with POISON bytes, so it is initialised as bytes
        let raw = unsafe { *(p.add(i) as *const [u8; 32]) };
        if raw.iter().all(|b| *b == POISON) {
            v.push(Slot::Poison);
        } else {
            // SAFETY: no longer the poison pattern => written by the parser as a whole Header
            v.push(classify(buf, unsafe { (*p.add(i)).assume_init_ref() }, i));
        }
    }
    v
}

#[derive(Clone, Copy, Debug)]
pub struct Call {
    pub entry: Entry,
    pub cfg: u8,
    pub cap: usize,
    pub hplace: Place,
    pub backend: Backend,
}

impl Call {
    pub fn new(entry: Entry, cfg: u8, cap: usize) -> Call {
        Call { entry, cfg, cap, hplace: Place::End, backend: Backend::AsIs }
    }
    pub fn with_backend(mut self, b: Backend) -> Call {
        self.backend = b;
        self
    }
    pub fn with_hplace(mut self, p: Place) -> Call {
        self.hplace = p;
        self
    }
}

/// One monitored call on a fresh value. `buf` must live in one of the
/// context's buffer arenas (or anywhere that outlives this function).
pub fn observe(ctx: &mut Ctx, call: Call, buf: &'static [u8]) -> Obs {
    let Call { entry, cfg, cap, hplace, backend } = call;
    let pc = mkcfg(cfg);
    let mut o = Obs {
        res: Res::new(St::Partial),
        entry,
        cfg,
        cap,
        hdr_len: 0,
        hdr_at_array: false,
        hdr_at_own: false,
        own_intact: true,
        slots: Vec::new(),
        exposed_poison: false,
        panic: None,
        ctr: hv::Counters::default(),
        allocs: 0,
        forced_ok: true,
        strs_utf8: true,
    };
    let fuel = ctx.fuel;
    match entry {
        Entry::R1 | Entry::R2 => {
            let p = init_array(&mut ctx.hdrs, cap, hplace);
            {
                // SAFETY: p points to cap initialised headers, exclusively ours
                let arr: &'static mut [Header<'static>] = unsafe { std::slice::from_raw_parts_mut(p, cap) };
                let mut req = Request::new(arr);
                let g = guarded(fuel, buf.len(), backend, || if entry == Entry::R1 { req.parse(buf) } else { pc.parse_request(&mut req, buf) });
                fill_req(&mut o, buf, &req, g, p as usize);
            }
            if ctx.collect_slots {
                o.slots = read_slots_init(buf, p, cap);
            }
        }
        Entry::R3 | Entry::R4 => {
            let own = init_array(&mut ctx.own, 2, Place::Start);
            let p = uninit_array(&mut ctx.hdrs, cap, hplace);
            {
                // SAFETY: as above
                let own_s: &'static mut [Header<'static>] = unsafe { std::slice::from_raw_parts_mut(own, 2) };
                let un: &'static mut [MaybeUninit<Header<'static>>] = unsafe { std::slice::from_raw_parts_mut(p, cap) };
                let mut req = Request::new(own_s);
                let g = guarded(fuel, buf.len(), backend, || {
                    if entry == Entry::R3 {
                        req.parse_with_uninit_headers(buf, un)
                    } else {
                        pc.parse_request_with_uninit_headers(&mut req, buf, un)
                    }
                });
                o.hdr_at_own = req.headers.as_ptr() as usize == own as usize && req.headers.len() == 2;
                fill_req(&mut o, buf, &req, g, p as usize);
            }
            let own_slots = read_slots_init(buf, own, 2);
            o.own_intact = own_slots.iter().all(|s| *s == Slot::Sent);
            if ctx.collect_slots {
                let written = if o.res.st.is_complete() { o.hdr_len.min(cap) } else { 0 };
                o.slots = read_slots_uninit(buf, p, cap, written);
            }
        }
        Entry::S1 | Entry::S2 => {
            let p = init_array(&mut ctx.hdrs, cap, hplace);
            {
                // SAFETY: as above
                let arr: &'static mut [Header<'static>] = unsafe { std::slice::from_raw_parts_mut(p, cap) };
                let mut resp = Response::new(arr);
                let g = guarded(fuel, buf.len(), backend, || if entry == Entry::S1 { resp.parse(buf) } else { pc.parse_response(&mut resp, buf) });
                fill_resp(&mut o, buf, &resp, g, p as usize);
            }
            if ctx.collect_slots {
                o.slots = read_slots_init(buf, p, cap);
            }
        }
        Entry::S4 => {
            let own = init_array(&mut ctx.own, 2, Place::Start);
            let p = uninit_array(&mut ctx.hdrs, cap, hplace);
            {
                // SAFETY: as above
                let own_s: &'static mut [Header<'static>] = unsafe { std::slice::from_raw_parts_mut(own, 2) };
                let un: &'static mut [MaybeUninit<Header<'static>>] = unsafe { std::slice::from_raw_parts_mut(p, cap) };
                let mut resp = Response::new(own_s);
                let g = guarded(fuel, buf.len(), backend, || pc.parse_response_with_uninit_headers(&mut resp, buf, un));
                o.hdr_at_own = resp.headers.as_ptr() as usize == own as usize && resp.headers.len() == 2;
                fill_resp(&mut o, buf, &resp, g, p as usize);
            }
            let own_slots = read_slots_init(buf, own, 2);
            o.own_intact = own_slots.iter().all(|s| *s == Slot::Sent);
            if ctx.collect_slots {
                let written = if o.res.st.is_complete() { o.hdr_len.min(cap) } else { 0 };
                o.slots = read_slots_uninit(buf, p, cap, written);
            }
        }
        Entry::H => {
            let p = init_array(&mut ctx.hdrs, cap, hplace);
            {
                // SAFETY: as above
                let arr: &'static mut [Header<'static>] = unsafe { std::slice::from_raw_parts_mut(p, cap) };
                let g = guarded(fuel, buf.len(), backend, || httparse::parse_headers(buf, arr));
                o.panic = g.panic;
                o.ctr = g.ctr;
                o.allocs = g.allocs;
                o.forced_ok = g.forced_ok;
                match g.r {
                    None => o.res.st = St::Err(ErrK::Panic),
                    Some(Ok(Status::Complete((n, hs)))) => {
                        o.res.st = St::Complete(n);
                        o.hdr_len = hs.len();
                        o.hdr_at_array = hs.as_ptr() as usize == p as usize;
                        let (l, poison) = exposed(buf, hs, &mut o.strs_utf8);
                        o.res.headers = l;
                        o.exposed_poison = poison;
                    }
                    Some(Ok(Status::Partial)) => o.res.st = St::Partial,
                    Some(Err(e)) => o.res.st = St::Err(ErrK::from_httparse(e)),
                }
            }
            if ctx.collect_slots {
                o.slots = read_slots_init(buf, p, cap);
            }
        }
        Entry::K => {
            let g = guarded(fuel, buf.len(), backend, || httparse::parse_chunk_size(buf));
            o.panic = g.panic;
            o.ctr = g.ctr;
            o.allocs = g.allocs;
            o.forced_ok = g.forced_ok;
            match g.r {
                None => o.res.st = St::Err(ErrK::Panic),
                Some(Ok(Status::Complete((n, size)))) => {
                    o.res.st = St::Complete(n);
                    o.res.size = size;
                }
                Some(Ok(Status::Partial)) => o.res.st = St::Partial,
                Some(Err(_)) => o.res.st = St::Err(ErrK::ChunkSize),
            }
        }
    }
    o
}

fn fill_req(o: &mut Obs, buf: &[u8], req: &Request<'_, '_>, g: Guarded<httparse::Result<usize>>, arr: usize) {
    o.res.st = st_of(&g.r);
    o.panic = g.panic;
    o.ctr = g.ctr;
    o.allocs = g.allocs;
    o.forced_ok = g.forced_ok;
    o.res.method = loc_str(buf, req.method);
    o.res.path = loc_str(buf, req.path);
    o.res.version = req.version;
    o.strs_utf8 = utf8_ok(req.method) && utf8_ok(req.path);
    o.hdr_len = req.headers.len();
    o.hdr_at_array = req.headers.as_ptr() as usize == arr;
    if o.res.st.is_complete() {
        let (l, poison) = exposed(buf, req.headers, &mut o.strs_utf8);
        o.res.headers = l;
        o.exposed_poison = poison;
    }
}

fn fill_resp(o: &mut Obs, buf: &[u8], resp: &Response<'_, '_>, g: Guarded<httparse::Result<usize>>, arr: usize) {
    o.res.st = st_of(&g.r);
    o.panic = g.panic;
    o.ctr = g.ctr;
    o.allocs = g.allocs;
    o.forced_ok = g.forced_ok;
    o.res.version = resp.version;
    o.res.code = resp.code;
    o.res.reason = loc_str(buf, resp.reason);
    o.strs_utf8 = utf8_ok(resp.reason);
    o.hdr_len = resp.headers.len();
    o.hdr_at_array = resp.headers.as_ptr() as usize == arr;
    if o.res.st.is_complete() {
        let (l, poison) = exposed(buf, resp.headers, &mut o.strs_utf8);
        o.res.headers = l;
        o.exposed_poison = poison;
    }
}
