//! Small deterministic PRNG (xoshiro256**, seeded through splitmix64) and a
//! 64-bit FNV/mix hash used for sharding and distinct counting.

#[derive(Clone)]
pub struct Rng {
    s: [u64; 4],
}

pub fn splitmix(x: &mut u64) -> u64 {
    *x = x.wrapping_add(0x9E3779B97F4A7C15);
    let mut z = *x;
    z = (z ^ (z >> 30)).wrapping_mul(0xBF58476D1CE4E5B9);
    z = (z ^ (z >> 27)).wrapping_mul(0x94D049BB133111EB);
    z ^ (z >> 31)
}

impl Rng {
    pub fn new(seed: u64) -> Rng {
        let mut x = seed;
        Rng { s: [splitmix(&mut x), splitmix(&mut x), splitmix(&mut x), splitmix(&mut x)] }
    }
    /// Independent stream for (seed, stream id, index).
    pub fn derive(seed: u64, stream: u64, idx: u64) -> Rng {
        let mut x = seed ^ stream.wrapping_mul(0xD6E8FEB86659FD93) ^ idx.wrapping_mul(0xA0761D6478BD642F);
        let a = splitmix(&mut x);
        Rng::new(a ^ idx)
    }
    #[inline]
    pub fn next(&mut self) -> u64 {
        let r = self.s[1].wrapping_mul(5).rotate_left(7).wrapping_mul(9);
        let t = self.s[1] << 17;
        self.s[2] ^= self.s[0];
        self.s[3] ^= self.s[1];
        self.s[1] ^= self.s[2];
        self.s[0] ^= self.s[3];
        self.s[2] ^= t;
        self.s[3] = self.s[3].rotate_left(45);
        r
    }
    /// Uniform in 0..n (n > 0).
    #[inline]
    pub fn below(&mut self, n: usize) -> usize {
        ((self.next() >> 11) as u128 * n as u128 >> 53) as usize
    }
    #[inline]
    pub fn range(&mut self, lo: usize, hi_incl: usize) -> usize {
        lo + self.below(hi_incl - lo + 1)
    }
    #[inline]
    pub fn chance(&mut self, num: usize, den: usize) -> bool {
        self.below(den) < num
    }
    #[inline]
    pub fn byte(&mut self) -> u8 {
        (self.next() >> 24) as u8
    }
    pub fn pick<'a, T>(&mut self, xs: &'a [T]) -> &'a T {
        &xs[self.below(xs.len())]
    }
    /// Heavy-tailed length: mostly small, occasionally up to `max`.
    pub fn heavy_len(&mut self, max: usize) -> usize {
        let r = self.below(100);
        let m = if r < 55 {
            12
        } else if r < 85 {
            40
        } else if r < 96 {
            100
        } else if r < 99 {
            400
        } else {
            max
        };
        self.below(m.min(max) + 1)
    }
}

#[inline]
pub fn hash_bytes(seed: u64, b: &[u8]) -> u64 {
    let mut h: u64 = 0xcbf29ce484222325 ^ seed.wrapping_mul(0x9E3779B97F4A7C15);
    let mut chunks = b.chunks_exact(8);
    for c in &mut chunks {
        let w = u64::from_le_bytes([c[0], c[1], c[2], c[3], c[4], c[5], c[6], c[7]]);
        h = (h ^ w).wrapping_mul(0x100000001b3).rotate_left(29);
    }
    for &x in chunks.remainder() {
        h = (h ^ x as u64).wrapping_mul(0x100000001b3);
    }
    h ^= b.len() as u64;
    h = (h ^ (h >> 32)).wrapping_mul(0xD6E8FEB86659FD93);
    h ^ (h >> 29)
}

#[inline]
pub fn mix(a: u64, b: u64) -> u64 {
    let mut h = a ^ b.wrapping_mul(0x9E3779B97F4A7C15);
    h = (h ^ (h >> 31)).wrapping_mul(0xBF58476D1CE4E5B9);
    h ^ (h >> 29)
}
