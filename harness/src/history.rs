//! Histories: several parse calls on ONE reused Request / Response value
//! (C02 chunked delivery, C18 history independence).

use crate::arena::Place;
use crate::obs::{exposed, loc_str, sent_header, st_of, Ctx, HSZ, POISON};
use crate::types::*;
use httparse::{Header, Request, Response};
use std::mem::MaybeUninit;
use std::panic::{catch_unwind, AssertUnwindSafe};

#[derive(Clone, Copy)]
pub struct Step {
    pub entry: Entry,
    pub cfg: u8,
    pub buf: &'static [u8],
    /// capacity of the fresh uninitialised array handed to an uninit entry point
    pub ucap: usize,
}

#[derive(Clone, Debug)]
pub struct HObs {
    pub res: Res,
    /// `headers.len()` of the value just before / after this call
    pub len_before: usize,
    pub len_after: usize,
    pub panicked: bool,
}

/// Run the steps on one value whose initial header array has `cap`
/// sentinel-filled slots. All steps must be of the same kind as `is_req`.
pub fn run(ctx: &mut Ctx, is_req: bool, cap: usize, steps: &[Step], backend: Backend) -> Vec<HObs> {
    let total: usize = steps.iter().map(|s| if s.entry.is_uninit() { s.ucap } else { 0 }).sum();
    let mut pool: Vec<MaybeUninit<Header<'static>>> = Vec::with_capacity(total.max(1));
    let pool_ptr = pool.as_mut_ptr();
    if !cfg!(miri) {
        // SAFETY: capacity reserved above
        unsafe { std::ptr::write_bytes(pool_ptr as *mut u8, POISON, total * HSZ) };
    }
    let mut pool_off = 0usize;
    let p = ctx.hdrs.raw(cap * HSZ, 8, Place::End, false) as *mut Header<'static>;
    for i in 0..cap {
        // SAFETY: cap slots
        unsafe { p.add(i).write(sent_header(i)) };
    }
    if backend != Backend::AsIs {
        httparse::_verif::scan::set_runtime_feature(backend.id());
    }
    let mut out = Vec::with_capacity(steps.len());
    // SAFETY: exclusively ours for the duration of this function
    let arr: &'static mut [Header<'static>] = unsafe { std::slice::from_raw_parts_mut(p, cap) };
    let mut take_uninit = |n: usize| -> &'static mut [MaybeUninit<Header<'static>>] {
        // SAFETY: disjoint sub-ranges of the pool, which outlives the value
        let s = unsafe { std::slice::from_raw_parts_mut(pool_ptr.add(pool_off), n) };
        pool_off += n;
        s
    };
    if is_req {
        let mut req = Request::new(arr);
        for s in steps {
            let pc = mkcfg(s.cfg);
            let len_before = req.headers.len();
            crate::obs::IN_MONITORED_CALL.with(|c| c.set(true));
            // cursor-operation fuel as in obs::guarded: a call that does not terminate panics instead
            // of hanging the worker (and losing what it has already recorded)
            httparse::_verif::set_fuel(16 * s.buf.len() as u64 + 4096);
            let r = catch_unwind(AssertUnwindSafe(|| match s.entry {
                Entry::R1 => req.parse(s.buf),
                Entry::R2 => pc.parse_request(&mut req, s.buf),
                Entry::R3 => req.parse_with_uninit_headers(s.buf, take_uninit(s.ucap)),
                Entry::R4 => pc.parse_request_with_uninit_headers(&mut req, s.buf, take_uninit(s.ucap)),
                _ => panic!("harness: not a request entry"),
            }));
            httparse::_verif::set_fuel(0);
            crate::obs::IN_MONITORED_CALL.with(|c| c.set(false));
            let st = st_of(&r.as_ref().ok().cloned());
            let mut res = Res::new(st);
            res.method = loc_str(s.buf, req.method);
            res.path = loc_str(s.buf, req.path);
            res.version = req.version;
            if st.is_complete() {
                let mut ok = true;
                res.headers = exposed(s.buf, req.headers, &mut ok).0;
            }
            out.push(HObs { res, len_before, len_after: req.headers.len(), panicked: r.is_err() });
            if r.is_err() {
                break;
            }
        }
    } else {
        let mut resp = Response::new(arr);
        for s in steps {
            let pc = mkcfg(s.cfg);
            let len_before = resp.headers.len();
            crate::obs::IN_MONITORED_CALL.with(|c| c.set(true));
            // cursor-operation fuel as in obs::guarded: a call that does not terminate panics instead
            // of hanging the worker (and losing what it has already recorded)
            httparse::_verif::set_fuel(16 * s.buf.len() as u64 + 4096);
            let r = catch_unwind(AssertUnwindSafe(|| match s.entry {
                Entry::S1 => resp.parse(s.buf),
                Entry::S2 => pc.parse_response(&mut resp, s.buf),
                Entry::S4 => pc.parse_response_with_uninit_headers(&mut resp, s.buf, take_uninit(s.ucap)),
                _ => panic!("harness: not a response entry"),
            }));
            httparse::_verif::set_fuel(0);
            crate::obs::IN_MONITORED_CALL.with(|c| c.set(false));
            let st = st_of(&r.as_ref().ok().cloned());
            let mut res = Res::new(st);
            res.version = resp.version;
            res.code = resp.code;
            res.reason = loc_str(s.buf, resp.reason);
            if st.is_complete() {
                let mut ok = true;
                res.headers = exposed(s.buf, resp.headers, &mut ok).0;
            }
            out.push(HObs { res, len_before, len_after: resp.headers.len(), panicked: r.is_err() });
            if r.is_err() {
                break;
            }
        }
    }
    drop(pool);
    out
}
