//! Per-property workloads: worker state, buffer streams, and the per-case
//! evaluation units (`unit_*`) that apply the oracles.

use crate::arena::Place;
use crate::gen::{self, Kind};
use crate::obs::{observe, Call, Ctx, Obs};
use crate::report::{replay_call, Stats, Violation, J};
use crate::rng::{hash_bytes, mix, Rng};
use crate::types::*;

#[derive(Clone, Copy, PartialEq, Eq, Debug, PartialOrd, Ord)]
pub enum Tier {
    /// Miri-sized: hundreds of cases per process
    Tiny,
    /// memcheck / ASan sized
    Small,
    Quick,
    Thorough,
}

impl Tier {
    pub fn parse(s: &str) -> Tier {
        match s {
            "tiny" => Tier::Tiny,
            "small" => Tier::Small,
            "thorough" => Tier::Thorough,
            _ => Tier::Quick,
        }
    }
}

/// Which generator produced a buffer (decides e.g. whether all backends run).
#[derive(Clone, Copy, PartialEq, Eq, Debug)]
pub enum Tag {
    G1,
    G2,
    G3,
    G4,
    G5,
    G6,
    G8,
}

pub struct W {
    pub ctx: Ctx,
    pub st: Stats,
    pub prop: String,
    pub tier: Tier,
    pub seed: u64,
    pub shard: u64,
    pub nshards: u64,
    /// the build has runtime dispatch, so backends can be forced
    pub can_force: bool,
    pub t0: std::time::Instant,
    /// crash journal (only when VERIF_JOURNAL is set): the case about to run
    pub journal: Option<std::fs::File>,
    /// tiny tier: calls made for the current buffer (capped)
    pub tiny_calls: u32,
}

pub const BACKENDS3: [Backend; 3] = [Backend::Avx2, Backend::Sse42, Backend::Scalar];

impl W {
    pub fn new(prop: &str, tier: Tier, seed: u64, shard: u64, nshards: u64) -> W {
        let can_force = httparse::_verif::scan::get_runtime_feature().is_some();
        W { ctx: Ctx::new(), st: Stats::new(), prop: prop.to_string(), tier, seed, shard, nshards, can_force, t0: std::time::Instant::now(), journal: std::env::var("VERIF_JOURNAL").ok().and_then(|p| std::fs::OpenOptions::new().create(true).write(true).open(p).ok()), tiny_calls: 0 }
    }
    /// Shard ownership by content hash: the per-shard sets of executed buffers are disjoint.
    #[inline]
    pub fn mine(&self, buf: &[u8]) -> bool {
        hash_bytes(0x51ed, buf) % self.nshards == self.shard
    }
    pub fn backends(&self, tag: Tag, rot: u64) -> Vec<Backend> {
        if !self.can_force {
            return vec![Backend::AsIs];
        }
        match tag {
            Tag::G3 => BACKENDS3.to_vec(),
            _ => vec![BACKENDS3[(rot % 3) as usize]],
        }
    }
    /// Place the buffer and observe one call; records statistics.
    pub fn journal(&mut self, args: &[String]) {
        if let Some(f) = self.journal.as_mut() {
            use std::io::{Seek, Write};
            let line = args.join(" ");
            let _ = f.set_len(0);
            let _ = f.seek(std::io::SeekFrom::Start(0));
            let _ = f.write_all(line.as_bytes());
        }
    }
    pub fn obs(&mut self, call: Call, data: &[u8], place: Place) -> (Obs, &'static [u8]) {
        if self.journal.is_some() {
            let prop = self.prop.clone();
            let a = replay_call(&prop, call.entry, call.cfg, call.cap, place.code(), call.backend, data);
            self.journal(&a);
        }
        let buf = self.ctx.place(data, place);
        let o = observe(&mut self.ctx, call, buf);
        self.st.seen(&o, buf);
        self.st.places |= match place {
            Place::End => 1,
            Place::Start => 2,
            Place::Mid(_) => 4,
            Place::Cross(_) => 8,
        };
        (o, buf)
    }
    pub fn viol(&mut self, rule: &str, detail: String, call: Call, place: Place, data: &[u8]) {
        let prop = self.prop.clone();
        self.viol_sig(rule, detail, call, place, data, None, &prop);
    }
    pub fn viol_sig(&mut self, rule: &str, detail: String, call: Call, place: Place, data: &[u8], sig: Option<String>, prop: &str) {
        let v = Violation {
            property: prop.to_string(),
            rule: rule.to_string(),
            detail: format!("{} | entry={} cfg={} cap={} backend={} input={}", detail, call.entry.name(), call.cfg, call.cap, call.backend.name(), crate::report::esc(data)),
            replay: replay_call(prop, call.entry, call.cfg, call.cap, place.code(), call.backend, data),
            signature: sig,
        };
        self.st.violation(v);
    }
    pub fn quick(&self) -> bool {
        self.tier <= Tier::Quick
    }
    /// pick by tier: (tiny, small, quick, thorough)
    pub fn by_tier<T: Copy>(&self, t: (T, T, T, T)) -> T {
        match self.tier {
            Tier::Tiny => t.0,
            Tier::Small => t.1,
            Tier::Quick => t.2,
            Tier::Thorough => t.3,
        }
    }
    pub fn rot(&self, data: &[u8]) -> u64 {
        hash_bytes(self.seed ^ 0xabc, data)
    }
    /// every panic is a C01 violation and poisons the differential verdicts
    pub fn check_panic(&mut self, o: &Obs, call: Call, place: Place, data: &[u8]) -> bool {
        if let Some(msg) = &o.panic {
            let m = msg.clone();
            self.viol("call_panicked", m, call, place, data);
            true
        } else {
            false
        }
    }
}

/// Number of LF-terminated lines: an upper bound on the number of headers.
pub fn lf_count(b: &[u8]) -> usize {
    b.iter().filter(|c| **c == b'\n').count()
}

pub fn ample_cap(b: &[u8]) -> usize {
    (lf_count(b) + 2).max(8)
}

// ------------------------------------------------------------------ streams

#[derive(Clone)]
pub struct Plan {
    pub g1: bool,
    /// values swept over all templates
    pub g2_all: Vec<u8>,
    /// values swept over the small template set
    pub g2_small: Vec<u8>,
    /// (max field length, values at each position, phases)
    pub g3: Vec<(usize, Vec<u8>, Vec<usize>)>,
    /// class-exhaustive word length for start-line contexts / header contexts
    pub g4_line: usize,
    pub g4_hdr: usize,
    pub g5: usize,
    pub g6: usize,
    pub g8: bool,
    pub lenient: usize,
    pub max_field: usize,
    /// also emit every proper prefix of G1/G5/G6/G8 outputs up to this length
    pub prefixes: usize,
    /// targeted families (G9): None = off, Some(level)
    pub g9: Option<usize>,
    /// sparse long-field sweep: (field lengths, values, position stride)
    pub g3_long: Option<(Vec<usize>, Vec<u8>, usize)>,
    /// adjacent-pair sweep: all 65536 byte pairs at a few positions of each field (0 = off,
    /// 1 = two positions in a 12-byte field, 2 = four positions in 12- and 40-byte fields)
    pub g10: usize,
}

impl Plan {
    pub fn empty() -> Plan {
        Plan { g1: false, g2_all: vec![], g2_small: vec![], g3: vec![], g4_line: 0, g4_hdr: 0, g5: 0, g6: 0, g8: false, lenient: 25, max_field: 300, prefixes: 0, g9: None, g3_long: None, g10: 0 }
    }
}

const REQ_LINE: &[u8] = b"GET / HTTP/1.1\r\n";
const RESP_LINE: &[u8] = b"HTTP/1.1 200 OK\r\n";

fn emit_with_prefixes(b: &[u8], tag: Tag, prefixes: usize, f: &mut dyn FnMut(&[u8], Tag)) {
    f(b, tag);
    if prefixes > 0 {
        let m = b.len().min(prefixes);
        for k in 0..m {
            f(&b[..k], tag);
        }
    }
}

/// The buffer stream of one kind under a plan. Deterministic in (plan, seed).
pub fn stream(kind: Kind, plan: &Plan, seed: u64, f: &mut dyn FnMut(&[u8], Tag)) {
    let templates = gen::templates(kind);
    let small = gen::templates_small(kind);
    if plan.g1 {
        for t in &templates {
            emit_with_prefixes(t, Tag::G1, plan.prefixes, f);
        }
    }
    if let Some(level) = plan.g9 {
        gen::g9_targeted(kind, level, &mut |b| emit_with_prefixes(b, Tag::G1, plan.prefixes.min(64), f));
    }
    if plan.g8 {
        for l in gen::g8_literals() {
            if gen::guess_kind(&l) == kind {
                emit_with_prefixes(&l, Tag::G8, plan.prefixes, f);
            }
        }
    }
    if !plan.g2_all.is_empty() {
        for t in &templates {
            if t.len() <= 160 {
                gen::g2_sweep(t, &plan.g2_all, &mut |b| f(b, Tag::G2));
            }
        }
    }
    if !plan.g2_small.is_empty() {
        for t in &small {
            gen::g2_sweep(t, &plan.g2_small, &mut |b| f(b, Tag::G2));
        }
    }
    for (maxl, values, phases) in &plan.g3 {
        let fields: &[gen::Field] = match kind {
            Kind::Req => &gen::REQ_FIELDS,
            Kind::Resp => &gen::RESP_FIELDS,
            Kind::Hdr => &[gen::Field::Name, gen::Field::Value],
            Kind::Chunk => &[gen::Field::ChunkExt],
        };
        for &field in fields {
            for l in 0..=*maxl {
                for &ph in phases {
                    // no special byte
                    f(&gen::g3_message(kind, field, l, usize::MAX, 0, ph, false), Tag::G3);
                    for q in 0..l {
                        for &v in values {
                            f(&gen::g3_message(kind, field, l, q, v, ph, (l + q) % 5 == 0), Tag::G3);
                            if ph == 0 && (l <= 48 || values.len() <= 8) {
                                // obs-text-rich neighbourhood (carry / borrow between adjacent bytes of a word)
                                f(&gen::g3_message_v(kind, field, l, q, v, ph, false, 1), Tag::G3);
                                // plain-letter neighbourhood ("clean ASCII word" fast paths)
                                f(&gen::g3_message_v(kind, field, l, q, v, ph, l % 2 == 1, 2), Tag::G3);
                            }
                        }
                    }
                }
            }
        }
    }
    if let Some((lens, values, stride)) = &plan.g3_long {
        let fields: &[gen::Field] = match kind {
            Kind::Req => &[gen::Field::Target, gen::Field::Value, gen::Field::Name],
            Kind::Resp => &[gen::Field::Reason, gen::Field::Value],
            Kind::Hdr => &[gen::Field::Value],
            Kind::Chunk => &[gen::Field::ChunkExt],
        };
        for &field in fields {
            for &l in lens {
                f(&gen::g3_message(kind, field, l, usize::MAX, 0, 0, false), Tag::G3);
                let mut q = 0;
                while q < l {
                    for &v in values {
                        f(&gen::g3_message(kind, field, l, q, v, 0, false), Tag::G3);
                    }
                    q += stride;
                }
                for &v in values {
                    f(&gen::g3_message(kind, field, l, l - 1, v, 0, false), Tag::G3);
                }
            }
        }
    }
    if plan.g10 > 0 {
        let fields: &[gen::Field] = match kind {
            Kind::Req => &[gen::Field::Target, gen::Field::Method, gen::Field::Name, gen::Field::Value],
            Kind::Resp => &[gen::Field::Reason, gen::Field::Name, gen::Field::Value],
            Kind::Hdr => &[gen::Field::Name, gen::Field::Value],
            Kind::Chunk => &[gen::Field::ChunkExt],
        };
        let lens: &[usize] = if plan.g10 >= 2 { &[12, 40] } else { &[12] };
        for &field in fields {
            for &l in lens {
                let poss: Vec<usize> = if plan.g10 >= 2 { vec![0, 5, 7, l - 2] } else { vec![5, l - 2] };
                for q in poss {
                    // plain-letter base message with a marker pair, then patch the pair in place
                    let base = gen::g3_message_v(kind, field, l, usize::MAX, 0, 0, false, 2);
                    let probe = gen::g3_message_v(kind, field, l, q, 0x00, 0, false, 2);
                    let at = match base.iter().zip(probe.iter()).position(|(a, b)| a != b) {
                        Some(p) => p,
                        None => continue,
                    };
                    let mut b = base.clone();
                    for b1 in 0..=255u8 {
                        b[at] = b1;
                        for b2 in 0..=255u8 {
                            b[at + 1] = b2;
                            f(&b, Tag::G2);
                        }
                    }
                }
            }
        }
    }
    if plan.g4_line > 0 {
        match kind {
            Kind::Req => {
                for c in gen::req_contexts() {
                    gen::g4_upto(&c, &gen::SIGMA_R, plan.g4_line, &mut |b| f(b, Tag::G4));
                }
            }
            Kind::Resp => {
                for c in gen::resp_contexts() {
                    gen::g4_upto(&c, &gen::SIGMA_S, plan.g4_line, &mut |b| f(b, Tag::G4));
                }
            }
            Kind::Chunk => {
                for c in [&b""[..], b"1", b"1 ", b"1;", b"1;x\r", b"fffffffffffffff", b"0000000000000000"] {
                    gen::g4_upto(c, &gen::SIGMA_C, plan.g4_line, &mut |b| f(b, Tag::G4));
                }
            }
            Kind::Hdr => {}
        }
    }
    if plan.g4_hdr > 0 && kind != Kind::Chunk {
        let line: &[u8] = match kind {
            Kind::Req => REQ_LINE,
            Kind::Resp => RESP_LINE,
            _ => b"",
        };
        for c in gen::HDR_CONTEXTS.iter() {
            let mut ctx = line.to_vec();
            ctx.extend_from_slice(c);
            gen::g4_upto(&ctx, &gen::SIGMA_H, plan.g4_hdr, &mut |b| f(b, Tag::G4));
        }
    }
    for i in 0..plan.g5 {
        let mut r = Rng::derive(seed, 5 + kind as u64 * 16, i as u64);
        let lenient = if i % 3 == 0 { 0 } else { plan.lenient };
        let b = gen::g5(kind, &mut r, lenient, plan.max_field);
        emit_with_prefixes(&b, Tag::G5, plan.prefixes, f);
    }
    if plan.g6 > 0 {
        let mut pool: Vec<Vec<u8>> = templates.clone();
        for l in gen::g8_literals() {
            if gen::guess_kind(&l) == kind && l.len() <= 400 {
                pool.push(l);
            }
        }
        for i in 0..plan.g6 {
            let mut r = Rng::derive(seed, 6 + kind as u64 * 16, i as u64);
            let mut b = if r.chance(1, 3) { gen::g5(kind, &mut r, plan.lenient, 60) } else { r.pick(&pool).clone() };
            let other = r.pick(&pool).clone();
            gen::g6_mutate(&mut r, &mut b, &other);
            emit_with_prefixes(&b, Tag::G6, plan.prefixes, f);
        }
    }
}

/// Relevant configuration values of a kind (all combinations of the bits the
/// kind honours).
pub fn relevant_cfgs(kind: Kind) -> Vec<u8> {
    let mask = kind.relevant_cfg();
    let mut v = Vec::new();
    for c in 0..128u8 {
        if c & !mask == 0 {
            v.push(c);
        }
    }
    v
}

pub fn sample_j(call: Call, data: &[u8], o: &Obs, note: &str) -> J {
    J::obj()
        .set("entry", J::s(call.entry.name()))
        .set("cfg_bits", J::U(call.cfg as u64))
        .set("capacity", J::U(call.cap as u64))
        .set("backend", J::s(call.backend.name()))
        .set("input", J::S(crate::report::esc(data)))
        .set("observed", J::S(o.res.show(data)))
        .set("note", J::s(note))
}

pub fn key(call: Call, data: &[u8]) -> u64 {
    mix(hash_bytes(1, data), (call.entry.idx() as u64) << 40 | (call.cfg as u64) << 32 | (call.cap as u64 & 0xffff) << 8 | call.backend.id() as u64)
}
