//! Workload plans per property and tier, and the property runners.

use crate::gen::{self, Kind};
use crate::props::*;
use crate::rng::hash_bytes;
use crate::units::unit_buffer;

pub fn kinds_for(prop: &str) -> Vec<Kind> {
    match prop {
        "C06" => vec![Kind::Req],
        "C07" => vec![Kind::Resp],
        "C09" => vec![Kind::Chunk],
        "C14" | "C15" => vec![Kind::Resp, Kind::Req],
        "C04" | "C05" | "C08" | "C10" | "C16" | "C17" => vec![Kind::Req, Kind::Resp, Kind::Hdr],
        _ => vec![Kind::Req, Kind::Resp, Kind::Hdr, Kind::Chunk],
    }
}

/// Scale class of a property: how expensive one buffer is.
fn weight(prop: &str) -> usize {
    match prop {
        "C02" => 40,
        "C15" => 60,
        "C11" => 6,
        "C17" => 8,
        "C01" => 6,
        "C14" => 6,
        "C16" => 4,
        _ => 1,
    }
}

pub fn plan_for(prop: &str, tier: Tier, kind: Kind) -> Plan {
    let mut p = Plan::empty();
    let wgt = weight(prop);
    p.g1 = true;
    p.g8 = true;
    let all = gen::all_bytes();
    let bnd = gen::BOUNDARY.to_vec();
    let few: Vec<u8> = vec![0x00, 0x09, 0x0D, 0x20, 0x7F, 0x80, b':'];
    match tier {
        Tier::Tiny => {
            p.g8 = false;
            p.g2_small = vec![];
            p.g3 = vec![(34, vec![0x7F], vec![0])];
            p.g5 = 6;
            p.g6 = 10;
        }
        Tier::Small => {
            p.g2_small = few.clone();
            p.g3 = vec![(40, vec![0x09, 0x7F], vec![0, 3])];
            p.g4_hdr = 2;
            p.g4_line = 1;
            p.g5 = 300;
            p.g6 = 600;
        }
        Tier::Quick => {
            if wgt >= 40 {
                p.g2_small = few.clone();
                p.g3 = vec![(20, vec![0x09, 0x7F, 0x80], vec![0])];
                p.g4_hdr = 3;
                p.g4_line = 2;
                p.g5 = 1500;
                p.g6 = 3000;
            } else if wgt >= 4 {
                p.g2_all = few.clone();
                p.g2_small = bnd.clone();
                p.g3 = vec![(34, bnd.clone(), vec![0]), (200, vec![0x7F, 0x1F, 0x09, 0x80], vec![0])];
                p.g4_hdr = 4;
                p.g4_line = 2;
                p.g5 = 6000;
                p.g6 = 12000;
            } else {
                p.g2_all = bnd.clone();
                p.g2_small = all.clone();
                p.g3 = vec![(40, bnd.clone(), vec![0, 3]), (16, all.clone(), vec![0]), (200, vec![0x7F, 0x1F, 0x09, 0x00, 0x80, 0xFF], vec![0])];
                p.g4_hdr = 4;
                p.g4_line = 3;
                p.g5 = 20000;
                p.g6 = 40000;
            }
        }
        Tier::Thorough => {
            if wgt >= 40 {
                p.g2_small = bnd.clone();
                p.g3 = vec![(40, bnd.clone(), vec![0])];
                p.g4_hdr = 4;
                p.g4_line = 3;
                p.g5 = 20000;
                p.g6 = 40000;
            } else if wgt >= 4 {
                p.g2_all = bnd.clone();
                p.g2_small = all.clone();
                p.g3 = vec![(70, bnd.clone(), vec![0, 5]), (24, all.clone(), vec![0]), (330, vec![0x7F, 0x1F, 0x09, 0x80], vec![0])];
                p.g4_hdr = 5;
                p.g4_line = 3;
                p.g5 = 100000;
                p.g6 = 200000;
            } else {
                p.g2_all = all.clone();
                p.g2_small = vec![];
                p.g3 = vec![(100, bnd.clone(), vec![0, 1, 7, 9]), (40, all.clone(), vec![0]), (420, vec![0x7F, 0x1F, 0x09, 0x00, 0x80, 0xFF], vec![0])];
                p.g4_hdr = 6;
                p.g4_line = 4;
                p.g5 = 400000;
                p.g6 = 800000;
            }
        }
    }
    p.g9 = Some(match tier {
        Tier::Tiny | Tier::Small => 0,
        Tier::Quick => 1,
        Tier::Thorough => 2,
    });
    if wgt >= 40 && tier <= Tier::Quick {
        p.g9 = Some(0);
    }
    // adjacent-pair sweeps for the cheap per-buffer properties
    if wgt == 1 && !matches!(prop, "C09" | "C19" | "C03") {
        p.g10 = match tier {
            Tier::Quick => 1,
            Tier::Thorough => 2,
            _ => 0,
        };
    }
    // property-specific emphasis
    match prop {
        "C09" => {
            p.g4_line = match tier {
                Tier::Tiny => 1,
                Tier::Small => 3,
                Tier::Quick => 5,
                Tier::Thorough => 7,
            };
            p.g3 = vec![];
        }
        "C02" | "C15" => {
            // chains / 128-config sweeps are expensive per buffer: long fields only sparsely
            if tier >= Tier::Quick {
                p.g3_long = Some((if tier == Tier::Quick { vec![66, 130, 162] } else { vec![66, 97, 130, 162, 200, 260] }, vec![0x7F, 0x1F, 0x80], if tier == Tier::Quick { 7 } else { 3 }));
            }
        }
        "C11" => {
            p.prefixes = 400;
            p.g5 /= 8;
            p.g6 /= 8;
        }
        "C06" | "C07" => {
            p.g4_hdr = p.g4_hdr.min(3);
            if tier >= Tier::Quick {
                p.g4_line += 1;
            }
        }
        "C08" => {
            p.g4_line = 0;
            if tier >= Tier::Quick {
                p.g4_hdr += 1;
            }
        }
        "C14" => {
            p.g4_line = 0;
            p.lenient = 60;
            if tier == Tier::Quick {
                p.g4_hdr = 5;
            }
        }
        "C10" => {
            p.lenient = 50;
            if tier == Tier::Quick {
                p.g4_hdr = 5;
            }
        }
        _ => {}
    }
    let _ = kind;
    p
}

/// Tiny tier (Miri): every case costs ~0.1 s, so cases are partitioned by
/// index (nothing is generated that this shard does not run).
fn tiny_stream(kind: Kind, seed: u64, shard: u64, n: u64, f: &mut dyn FnMut(&[u8], Tag)) {
    let mut idx = 0u64;
    let mut own = || {
        idx += 1;
        idx % n == shard
    };
    for t in gen::templates(kind) {
        if t.len() <= 200 && own() {
            f(&t, Tag::G1);
        }
    }
    let fields: &[gen::Field] = match kind {
        Kind::Req => &gen::REQ_FIELDS,
        Kind::Resp => &gen::RESP_FIELDS,
        Kind::Hdr => &[gen::Field::Name, gen::Field::Value],
        Kind::Chunk => &[gen::Field::ChunkExt],
    };
    for &field in fields {
        for &l in &[0usize, 1, 7, 8, 9, 15, 16, 17, 31, 32, 33, 40, 64, 65] {
            for (q, v) in [(usize::MAX, 0u8), (0, 0x7F), (l / 2, 0x09), (l.saturating_sub(1), 0x80)] {
                if own() {
                    f(&gen::g3_message(kind, field, l, q, v, (l % 3) * 5, l % 2 == 0), Tag::G3);
                }
            }
        }
    }
    for i in 0..24u64 {
        if own() {
            let mut r = crate::rng::Rng::derive(seed, 0x717 + kind as u64, i);
            let mut b = gen::g5(kind, &mut r, 40, 40);
            if i % 2 == 0 {
                let o = b.clone();
                gen::g6_mutate(&mut r, &mut b, &o);
            }
            if i % 3 == 0 {
                let k = r.below(b.len() + 1);
                b.truncate(k);
            }
            f(&b, Tag::G5);
        }
    }
}

pub fn run_inputs(w: &mut W) {
    let prop = w.prop.clone();
    if w.tier == Tier::Tiny {
        for kind in kinds_for(&prop) {
            let (seed, shard, n) = (w.seed, w.shard, w.nshards);
            let mut f = |b: &[u8], tag: Tag| {
                if !b.is_empty() {
                    w.st.distinct_case(hash_bytes(kind as u64 + 100, b));
                }
                unit_buffer(w, kind, b, tag);
            };
            tiny_stream(kind, seed, shard, n, &mut f);
        }
        return;
    }
    for kind in kinds_for(&prop) {
        let plan = plan_for(&prop, w.tier, kind);
        let seed = w.seed;
        // raw pointer dance avoided: collect per-buffer work through a closure borrowing w
        let mut f = |b: &[u8], tag: Tag| {
            if !w.mine(b) {
                return;
            }
            if !b.is_empty() {
                w.st.distinct_case(hash_bytes(kind as u64 + 100, b));
            }
            w.st.count(&format!("buffers_{:?}", tag), 1);
            unit_buffer(w, kind, b, tag);
        };
        stream(kind, &plan, seed, &mut f);
    }
}

/// C01 also runs the adversarial scaling families (up to 1 MiB in the thorough tier): large
/// inputs against the guard pages, with fuel armed.
fn run_c01_large(w: &mut W) {
    let sizes: Vec<usize> = match w.tier {
        Tier::Tiny => return,
        Tier::Small => vec![1 << 12],
        Tier::Quick => vec![1 << 12, (1 << 16) + 17],
        Tier::Thorough => vec![1 << 12, (1 << 16) + 17, 1 << 18, 1 << 20],
    };
    let mut idx = 0u64;
    for fam in 0..gen::G7_FAMILIES {
        for &sz in &sizes {
            for bk in 0..3usize {
                idx += 1;
                if idx % w.nshards != w.shard {
                    continue;
                }
                let s = gen::g7(fam, sz);
                let backend = if w.can_force { BACKENDS3[bk] } else { crate::types::Backend::AsIs };
                w.st.distinct_case(hash_bytes(7, &s.buf) ^ bk as u64);
                w.st.count("large_family_inputs", 1);
                w.st.max("largest_input_bytes", s.buf.len() as f64);
                let call = crate::obs::Call { entry: s.entry, cfg: s.cfg, cap: s.cap.min(60000), hplace: crate::arena::Place::End, backend };
                crate::units::unit_call(w, call, &s.buf, crate::arena::Place::End);
                let cut = s.buf.len() - s.buf.len() / 3;
                crate::units::unit_call(w, call, &s.buf[..cut], crate::arena::Place::End);
                if !w.can_force {
                    break;
                }
            }
        }
    }
}

pub fn run_property(w: &mut W) {
    match w.prop.as_str() {
        "C12" | "C13" | "C18" | "C20" => crate::special::run(w),
        "C01" => {
            run_inputs(w);
            run_c01_large(w);
        }
        _ => run_inputs(w),
    }
}

pub fn replay_other(kind: &str, args: &[String]) -> i32 {
    crate::special::replay(kind, args)
}
