//! Engine E10: copy the repository's NEON backend source, rewriting only its
//! import paths, so that the harness can execute it on x86-64 over the
//! emulated intrinsics in src/neon_emu.rs.
use std::{env, fs, path::PathBuf};

fn main() {
    let repo = env::var("VERIF_REPO").unwrap_or_else(|_| "/repo".to_string());
    println!("cargo:rerun-if-env-changed=VERIF_REPO");
    let src_path = format!("{}/src/simd/neon.rs", repo);
    println!("cargo:rerun-if-changed={}", src_path);
    println!("cargo:rerun-if-changed=build.rs");
    let out = PathBuf::from(env::var("OUT_DIR").unwrap()).join("neon_rewritten.rs");
    let src = match fs::read_to_string(&src_path) {
        Ok(s) => s,
        Err(_) => {
            fs::write(&out, "pub const NEON_SOURCE_OK: bool = false;\npub const NEON_REWRITE_NOTE: &str = \"neon.rs not found\";\n").unwrap();
            return;
        }
    };
    let rewrites: [(&str, &str); 6] = [
        ("use core::arch::aarch64::*;", "use crate::neon_emu::*;"),
        ("use crate::iter::Bytes;", "use httparse::_benchable::Bytes;"),
        ("super::swar::match_header_name_vectored(", "httparse::_verif::scan::swar_name("),
        ("super::swar::match_header_value_vectored(", "httparse::_verif::scan::swar_value("),
        ("super::swar::match_uri_vectored(", "httparse::_verif::scan::swar_uri("),
        ("crate::_verif::", "httparse::_verif::"),
    ];
    let mut s = src;
    let mut missing = Vec::new();
    for (from, to) in rewrites.iter() {
        if !s.contains(from) {
            missing.push(*from);
        }
        s = s.replace(from, to);
    }
    // the #[test] functions refer to crate-private tables; drop everything from the first test on
    if let Some(p) = s.find("#[test]") {
        s.truncate(p);
    }
    let ok = missing.is_empty();
    let mut outs = String::new();
    if ok {
        outs.push_str(&s);
        outs.push_str("\npub const NEON_SOURCE_OK: bool = true;\npub const NEON_REWRITE_NOTE: &str = \"all rewrite patterns found\";\n");
    } else {
        outs.push_str(&format!(
            "pub const NEON_SOURCE_OK: bool = false;\npub const NEON_REWRITE_NOTE: &str = {:?};\n",
            format!("rewrite patterns not found: {:?}", missing)
        ));
        outs.push_str("use httparse::_benchable::Bytes;\npub fn match_header_name_vectored(_b: &mut Bytes) {}\npub fn match_header_value_vectored(_b: &mut Bytes) {}\npub fn match_uri_vectored(_b: &mut Bytes) {}\n");
    }
    fs::write(&out, outs).unwrap();
}
