#!/bin/sh
# Builds the harness variants used by the quick checks from /repo's working
# tree into /verif/target (offline; nothing outside /verif is needed later).
set -e
cd "$(dirname "$0")"
export CARGO_NET_OFFLINE=true
python3 - <<'PY'
import sys, os
sys.path.insert(0, "driver")
import vdriver as vd
from concurrent.futures import ThreadPoolExecutor
names = ["rel", "rel-dbg", "ovf", "avx2ct", "sse42ct", "nosimd", "nostd", "avx2ct-dbg", "sse42ct-dbg", "nosimd-dbg", "nostd-dbg"]
def b(n):
    try:
        vd.build(n)
        return n, None
    except vd.Inconclusive as e:
        return n, str(e)
with ThreadPoolExecutor(max_workers=5) as ex:
    res = list(ex.map(b, names))
bad = [r for r in res if r[1]]
for n, e in bad:
    print("setup: build of %s failed:\n%s" % (n, e[-2000:]))
sys.exit(1 if bad else 0)
PY
echo "setup done"
